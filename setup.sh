#!/bin/bash
# Offline setup: warm the Go build cache by building the harness once against /repo.
set -e
cd "$(dirname "$0")"
export GOFLAGS=-mod=mod GOPROXY=off GOSUMDB=off GOTOOLCHAIN=local
S=$(mktemp -d /tmp/vsetup.XXXXXX)
trap 'rm -rf "$S"' EXIT
rsync -a --exclude .git /repo/ "$S/src/"
cp -r verifsim "$S/src/verifsim"
printf '\nrequire github.com/anishathalye/porcupine v1.3.0\n' >> "$S/src/go.mod"
cd "$S/src"
go1.26.8 run ./verifsim/cmd/rewriteimports store/fscache
go1.26.8 run ./verifsim/cmd/instrumentgo .
go1.26.8 test -c -o "$S/sim.test" ./verifsim/engine
echo "setup ok"
