#!/bin/bash
# run every registered quick (or thorough) check once; summary on stdout, full logs under /tmp/vrunall
tier=${1:-quick}
mkdir -p /tmp/vrunall
for p in $(python3 -c "import sys;sys.path.insert(0,'/verif');from vconfig import PROPS;print(' '.join(sorted(PROPS)))"); do
  [ -n "$2" ] && [[ ! " $2 " =~ " $p " ]] && continue
  s=$(date +%s)
  ./vcheck $p --tier $tier > /tmp/vrunall/$p.$tier.log 2>&1; rc=$?
  e=$(( $(date +%s) - s ))
  echo "== $p rc=$rc ${e}s viol=$(grep -c '^VIOLATION' /tmp/vrunall/$p.$tier.log) known=$(grep -c '^KNOWN-FINDING' /tmp/vrunall/$p.$tier.log) $(grep -h 'INFRA-ERROR' /tmp/vrunall/$p.$tier.log | head -1 | cut -c1-200)"
done
