// Package simrand mirrors the part of crypto/rand that store/fscache uses.
// The bytes still come from crypto/rand (which the engine re-seeds per run
// with testing/cryptotest, so they are a function of the seed); what the
// mirror adds is a scheduling point before and after each draw, so that the
// simulator decides what other goroutines do between "nonce drawn" and
// "nonce used".
package simrand

import (
	crand "crypto/rand"
	"io"
	"sync/atomic"
)

var hook atomic.Pointer[func(what string)]

// SetHook installs (or, with nil, removes) the scheduling callback.
func SetHook(f func(what string)) {
	if f == nil {
		hook.Store(nil)
		return
	}
	hook.Store(&f)
}

func yield(what string) {
	if f := hook.Load(); f != nil {
		(*f)(what)
	}
}

type reader struct{}

func (reader) Read(b []byte) (int, error) {
	yield("rand:read")
	n, err := crand.Read(b)
	yield("rand:read-done")
	return n, err
}

// Reader mirrors crypto/rand.Reader.
var Reader io.Reader = reader{}

// Read mirrors crypto/rand.Read.
func Read(b []byte) (int, error) { return Reader.Read(b) }

// Text mirrors crypto/rand.Text.
func Text() string {
	yield("rand:text")
	return crand.Text()
}
