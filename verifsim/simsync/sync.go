// Package simsync mirrors the part of sync the library may use. Everything is
// the real thing except Mutex and RWMutex: a goroutine that finds one of them
// held does not block inside the runtime (which testing/synctest does not
// count as durably blocked: the simulator's scheduler would wait for ever for
// the bubble to come to rest, because the holder is parked at a seam) but
// parks at a scheduling point of its own and tries again later. On code that
// never holds a lock across a seam the fast path always succeeds and no
// scheduling point is added: executions are those of the real sync package.
package simsync

import (
	"sync"
	"sync/atomic"
)

type (
	WaitGroup = sync.WaitGroup
	Once      = sync.Once
	Pool      = sync.Pool
	Map       = sync.Map
	Cond      = sync.Cond
	Locker    = sync.Locker
)

func NewCond(l Locker) *Cond                                   { return sync.NewCond(l) }
func OnceFunc(f func()) func()                                 { return sync.OnceFunc(f) }
func OnceValue[T any](f func() T) func() T                     { return sync.OnceValue(f) }
func OnceValues[T1, T2 any](f func() (T1, T2)) func() (T1, T2) { return sync.OnceValues(f) }

// hook parks the caller until the scheduler lets it try again (attempt counts from 0). It reports false when
// the caller is not under the scheduler's control (then the real, blocking operation is used).
var hook atomic.Pointer[func(attempt int) bool]

// SetHook installs (or, with nil, removes) the waiting callback.
func SetHook(f func(attempt int) bool) {
	if f == nil {
		hook.Store(nil)
		return
	}
	hook.Store(&f)
}

// Waits counts lock attempts that found the lock held (reach probe).
var Waits atomic.Int64

const maxAttempts = 64

func wait(try func() bool) bool {
	f := hook.Load()
	if f == nil {
		return false
	}
	Waits.Add(1)
	for i := 0; i < maxAttempts; i++ {
		if !(*f)(i) {
			return false
		}
		if try() {
			return true
		}
	}
	return false
}

type Mutex struct{ mu sync.Mutex }

func (m *Mutex) Lock() {
	if m.mu.TryLock() || wait(m.mu.TryLock) {
		return
	}
	m.mu.Lock()
}
func (m *Mutex) Unlock()       { m.mu.Unlock() }
func (m *Mutex) TryLock() bool { return m.mu.TryLock() }

type RWMutex struct{ mu sync.RWMutex }

func (m *RWMutex) Lock() {
	if m.mu.TryLock() || wait(m.mu.TryLock) {
		return
	}
	m.mu.Lock()
}
func (m *RWMutex) Unlock() { m.mu.Unlock() }
func (m *RWMutex) RLock() {
	if m.mu.TryRLock() || wait(m.mu.TryRLock) {
		return
	}
	m.mu.RLock()
}
func (m *RWMutex) RUnlock()        { m.mu.RUnlock() }
func (m *RWMutex) TryLock() bool   { return m.mu.TryLock() }
func (m *RWMutex) TryRLock() bool  { return m.mu.TryRLock() }
func (m *RWMutex) RLocker() Locker { return (*rlocker)(m) }

type rlocker RWMutex

func (r *rlocker) Lock()   { (*RWMutex)(r).RLock() }
func (r *rlocker) Unlock() { (*RWMutex)(r).RUnlock() }
