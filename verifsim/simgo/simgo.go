// Package simgo is the goroutine-birth seam. In the scratch copy every goroutine the
// library starts calls Enter first (inserted by cmd/instrumentgo), so that the simulator
// learns the goroutine's lineage while its creator is still known - a goroutine whose
// creator has already returned (a background task whose context was over before it began)
// would otherwise be unattributable. Enter never parks and draws nothing from the tape.
package simgo

import "sync/atomic"

var hook atomic.Pointer[func()]

// SetHook installs (or, with nil, removes) the registration callback.
func SetHook(f func()) {
	if f == nil {
		hook.Store(nil)
		return
	}
	hook.Store(&f)
}

// Enter announces the calling goroutine to the simulator.
func Enter() {
	if f := hook.Load(); f != nil {
		(*f)()
	}
}
