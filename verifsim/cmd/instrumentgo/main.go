// Command instrumentgo inserts, in the non-test Go files below the given module root
// (the scratch copy; never /repo), a call of simgo.Enter() at the start of every goroutine
// the library starts: at the top of the function literal of `go func(){...}()`, and at the
// top of the declared function or method named in `go f(...)` / `go x.m(...)` when it is
// declared in the same package. Nothing else is touched. Directories verifsim, _examples,
// testdata and hidden ones are skipped.
package main

import (
	"fmt"
	"go/ast"
	"go/format"
	"go/parser"
	"go/token"
	"os"
	"path/filepath"
	"strconv"
	"strings"
)

const simgoPath = "github.com/bartventer/httpcache/verifsim/simgo"

func enterStmt() ast.Stmt {
	return &ast.ExprStmt{X: &ast.CallExpr{Fun: &ast.SelectorExpr{X: ast.NewIdent("simgo"), Sel: ast.NewIdent("Enter")}}}
}

func die(err error) {
	fmt.Fprintln(os.Stderr, "instrumentgo:", err)
	os.Exit(2)
}

func main() {
	root := os.Args[1]
	byDir := map[string][]string{}
	err := filepath.WalkDir(root, func(p string, d os.DirEntry, err error) error {
		if err != nil {
			return err
		}
		name := d.Name()
		if d.IsDir() {
			if p != root && (name == "verifsim" || name == "_examples" || name == "testdata" || strings.HasPrefix(name, ".")) {
				return filepath.SkipDir
			}
			return nil
		}
		if strings.HasSuffix(name, ".go") && !strings.HasSuffix(name, "_test.go") {
			byDir[filepath.Dir(p)] = append(byDir[filepath.Dir(p)], p)
		}
		return nil
	})
	if err != nil {
		die(err)
	}
	sites, files := 0, 0
	for _, paths := range byDir {
		fset := token.NewFileSet()
		parsed := map[string]*ast.File{}
		for _, p := range paths {
			f, err := parser.ParseFile(fset, p, nil, parser.ParseComments)
			if err != nil {
				die(err)
			}
			parsed[p] = f
		}
		// names of functions / methods started with a go statement
		started := map[string]bool{}
		dirty := map[string]bool{}
		for p, f := range parsed {
			ast.Inspect(f, func(n ast.Node) bool {
				gs, ok := n.(*ast.GoStmt)
				if !ok {
					return true
				}
				switch fn := gs.Call.Fun.(type) {
				case *ast.FuncLit:
					fn.Body.List = append([]ast.Stmt{enterStmt()}, fn.Body.List...)
					dirty[p] = true
					sites++
				case *ast.Ident:
					started[fn.Name] = true
				case *ast.SelectorExpr:
					started[fn.Sel.Name] = true
				}
				return true
			})
		}
		for p, f := range parsed {
			for _, d := range f.Decls {
				fd, ok := d.(*ast.FuncDecl)
				if ok && fd.Body != nil && started[fd.Name.Name] {
					fd.Body.List = append([]ast.Stmt{enterStmt()}, fd.Body.List...)
					dirty[p] = true
					sites++
				}
			}
		}
		for p := range dirty {
			f := parsed[p]
			spec := &ast.ImportSpec{Name: ast.NewIdent("simgo"), Path: &ast.BasicLit{Kind: token.STRING, Value: strconv.Quote(simgoPath)}}
			added := false
			for _, d := range f.Decls {
				if gd, ok := d.(*ast.GenDecl); ok && gd.Tok == token.IMPORT {
					if !gd.Lparen.IsValid() {
						gd.Lparen = gd.Pos() // force the parenthesised form
						gd.Rparen = gd.End()
					}
					gd.Specs = append(gd.Specs, spec)
					added = true
					break
				}
			}
			if !added {
				f.Decls = append([]ast.Decl{&ast.GenDecl{Tok: token.IMPORT, Specs: []ast.Spec{spec}}}, f.Decls...)
			}
			out, err := os.Create(p)
			if err != nil {
				die(err)
			}
			if err := format.Node(out, fset, f); err != nil {
				die(err)
			}
			out.Close()
			files++
		}
	}
	fmt.Printf("instrumentgo: %d goroutine entry points in %d files\n", sites, files)
}
