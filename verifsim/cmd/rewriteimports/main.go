// Command rewriteimports rewrites, in the non-test Go files of the given
// directories, the import specs "os", "path/filepath", "crypto/rand" and "sync" to the simulated
// mirrors, and "sync" alone in the other packages of the library. Nothing else in the files is touched.
package main

import (
	"fmt"
	"go/ast"
	"go/format"
	"go/parser"
	"go/token"
	"os"
	"path/filepath"
	"strconv"
	"strings"
)

var repl = map[string][2]string{
	"os":            {"os", "github.com/bartventer/httpcache/verifsim/simos"},
	"path/filepath": {"filepath", "github.com/bartventer/httpcache/verifsim/simfilepath"},
	"crypto/rand":   {"rand", "github.com/bartventer/httpcache/verifsim/simrand"},
}

// syncRepl: in every package of the library, sync's Mutex and RWMutex become cooperative (simsync): a lock the
// library holds while it is parked at a seam must not block another goroutine inside the runtime.
var syncRepl = map[string][2]string{
	"sync": {"sync", "github.com/bartventer/httpcache/verifsim/simsync"},
}

var syncDirs = []string{".", "internal", "store", "store/memcache", "store/fscache", "store/expapi", "store/driver"}

func main() {
	n := 0
	repl["sync"] = syncRepl["sync"]
	full := map[string]bool{}
	for _, dir := range os.Args[1:] {
		full[filepath.Clean(dir)] = true
		n += rewriteDir(dir, repl, true)
	}
	for _, dir := range syncDirs {
		if !full[filepath.Clean(dir)] {
			n += rewriteDir(dir, syncRepl, false)
		}
	}
	n += clockSeam("internal/clock.go")
	fmt.Printf("rewriteimports: %d files rewritten\n", n)
}

func rewriteDir(dir string, repl map[string][2]string, must bool) int {
	n := 0
	{
		ents, err := os.ReadDir(dir)
		if err != nil {
			if !must {
				return 0
			}
			fmt.Fprintln(os.Stderr, err)
			os.Exit(2)
		}
		for _, e := range ents {
			name := e.Name()
			if e.IsDir() || !strings.HasSuffix(name, ".go") || strings.HasSuffix(name, "_test.go") {
				continue
			}
			p := filepath.Join(dir, name)
			fset := token.NewFileSet()
			f, err := parser.ParseFile(fset, p, nil, parser.ParseComments)
			if err != nil {
				fmt.Fprintln(os.Stderr, err)
				os.Exit(2)
			}
			changed := false
			for _, imp := range f.Imports {
				ip, _ := strconv.Unquote(imp.Path.Value)
				r, ok := repl[ip]
				if !ok {
					continue
				}
				if imp.Name == nil {
					imp.Name = ast.NewIdent(r[0])
				}
				imp.Path.Value = strconv.Quote(r[1])
				changed = true
			}
			if !changed {
				continue
			}
			out, err := os.Create(p)
			if err != nil {
				fmt.Fprintln(os.Stderr, err)
				os.Exit(2)
			}
			if err := format.Node(out, fset, f); err != nil {
				fmt.Fprintln(os.Stderr, err)
				os.Exit(2)
			}
			out.Close()
			n++
		}
	}
	return n
}

// clockSeam makes the library's internal wall clock read the simulated one (which can be stepped). The two
// lines are replaced textually; if they are not there (the file was edited), the clock simply stays unstepped.
func clockSeam(p string) int {
	b, err := os.ReadFile(p)
	if err != nil {
		return 0
	}
	s := string(b)
	a, bb := "{ return time.Since(t) }", "{ return time.Now() }"
	if !strings.Contains(s, a) || !strings.Contains(s, bb) || !strings.Contains(s, "\t\"time\"\n") {
		return 0
	}
	s = strings.Replace(s, a, "{ return simclock.Since(t) }", 1)
	s = strings.Replace(s, bb, "{ return simclock.Now() }", 1)
	s = strings.Replace(s, "\t\"time\"\n", "\t\"time\"\n\n\t\"github.com/bartventer/httpcache/verifsim/simclock\"\n", 1)
	if err := os.WriteFile(p, []byte(s), 0o644); err != nil {
		fmt.Fprintln(os.Stderr, err)
		os.Exit(2)
	}
	return 1
}
