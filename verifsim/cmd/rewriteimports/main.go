// Command rewriteimports rewrites, in the non-test Go files of the given
// directories, the import specs "os", "path/filepath" and "crypto/rand" to the simulated
// mirrors. Nothing else in the files is touched.
package main

import (
	"fmt"
	"go/ast"
	"go/format"
	"go/parser"
	"go/token"
	"os"
	"path/filepath"
	"strconv"
	"strings"
)

var repl = map[string][2]string{
	"os":            {"os", "github.com/bartventer/httpcache/verifsim/simos"},
	"path/filepath": {"filepath", "github.com/bartventer/httpcache/verifsim/simfilepath"},
	"crypto/rand":   {"rand", "github.com/bartventer/httpcache/verifsim/simrand"},
}

func main() {
	n := 0
	for _, dir := range os.Args[1:] {
		ents, err := os.ReadDir(dir)
		if err != nil {
			fmt.Fprintln(os.Stderr, err)
			os.Exit(2)
		}
		for _, e := range ents {
			name := e.Name()
			if e.IsDir() || !strings.HasSuffix(name, ".go") || strings.HasSuffix(name, "_test.go") {
				continue
			}
			p := filepath.Join(dir, name)
			fset := token.NewFileSet()
			f, err := parser.ParseFile(fset, p, nil, parser.ParseComments)
			if err != nil {
				fmt.Fprintln(os.Stderr, err)
				os.Exit(2)
			}
			changed := false
			for _, imp := range f.Imports {
				ip, _ := strconv.Unquote(imp.Path.Value)
				r, ok := repl[ip]
				if !ok {
					continue
				}
				if imp.Name == nil {
					imp.Name = ast.NewIdent(r[0])
				}
				imp.Path.Value = strconv.Quote(r[1])
				changed = true
			}
			if !changed {
				continue
			}
			out, err := os.Create(p)
			if err != nil {
				fmt.Fprintln(os.Stderr, err)
				os.Exit(2)
			}
			if err := format.Node(out, fset, f); err != nil {
				fmt.Fprintln(os.Stderr, err)
				os.Exit(2)
			}
			out.Close()
			n++
		}
	}
	n += clockSeam("internal/clock.go")
	fmt.Printf("rewriteimports: %d files rewritten\n", n)
}

// clockSeam makes the library's internal wall clock read the simulated one (which can be stepped). The two
// lines are replaced textually; if they are not there (the file was edited), the clock simply stays unstepped.
func clockSeam(p string) int {
	b, err := os.ReadFile(p)
	if err != nil {
		return 0
	}
	s := string(b)
	a, bb := "{ return time.Since(t) }", "{ return time.Now() }"
	if !strings.Contains(s, a) || !strings.Contains(s, bb) || !strings.Contains(s, "\t\"time\"\n") {
		return 0
	}
	s = strings.Replace(s, a, "{ return simclock.Since(t) }", 1)
	s = strings.Replace(s, bb, "{ return simclock.Now() }", 1)
	s = strings.Replace(s, "\t\"time\"\n", "\t\"time\"\n\n\t\"github.com/bartventer/httpcache/verifsim/simclock\"\n", 1)
	if err := os.WriteFile(p, []byte(s), 0o644); err != nil {
		fmt.Fprintln(os.Stderr, err)
		os.Exit(2)
	}
	return 1
}
