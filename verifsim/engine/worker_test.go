package engine

import "testing"

func TestWorker(t *testing.T) { RunWorker(t) }
