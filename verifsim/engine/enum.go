package engine

import (
	"encoding/hex"
	"fmt"
	"sort"
	"testing"
	"time"

	"github.com/bartventer/httpcache/verifsim/kit"
)

// Fault enumeration around sampled scenarios: the fault dimension (cut point
// of a write, byte position of a stored file, placement of one store / origin
// fault in a short history) is swept completely; the scenario it is swept
// around is sampled.

type enumCtx struct {
	t     *testing.T
	job   *Job
	out   *WorkerOut
	sigs  map[string]bool
	seen  map[string]bool
	t0    time.Time
	n     int
	cases int
}

func (c *enumCtx) mine() bool {
	c.cases++
	return (c.cases-1)%max(c.job.Stride, 1) == c.job.Start
}

func (c *enumCtx) overBudget() bool {
	return c.job.BudgetSec > 0 && time.Since(c.t0) > time.Duration(c.job.BudgetSec)*time.Second
}

func (c *enumCtx) run(scn *Scenario) (*Run, *Judged) {
	writeProgress(c.job.Progress, scn, c.n)
	c.n++
	r, jd := Exec(c.t, scn)
	if r.Sim.Ambiguous > 0 {
		c.out.Ambiguous += r.Sim.Ambiguous
		c.out.Runs++
		return r, jd
	}
	c.out.absorb(r, jd, c.job.Prop, c.sigs)
	if len(c.out.Samples) < 2 && propJudged(jd, c.job.Prop) > 0 && c.n%7 == 3 {
		c.out.Samples = append(c.out.Samples, sampleOf(scn, r))
	}
	for _, v := range jd.Violations {
		if v.Prop != c.job.Prop {
			c.out.OtherHits[v.Prop+"/"+v.Rule]++
			continue
		}
		if c.seen[v.Sig] {
			n, _ := c.out.Extra["more:"+v.Sig].(int)
			c.out.Extra["more:"+v.Sig] = n + 1
			continue
		}
		c.seen[v.Sig] = true
		sc := *scn
		sc.Decisions = append([]int(nil), r.Sim.T.Rec...)
		c.out.Found = append(c.out.Found, Found{Seed: scn.Seed, Profile: scn.Profile, V: v, Scenario: &sc, Digest: r.Sim.Digest()})
	}
	return r, jd
}

func enumMode(t *testing.T, job *Job) {
	c := &enumCtx{t: t, job: job, out: newOut(), sigs: map[string]bool{}, seen: map[string]bool{}, t0: time.Now()}
	switch job.Prop {
	case "C15":
		enumCuts(c)
	case "C17":
		enumTamper(c)
	case "C10":
		enumPlacements(c)
	}
	c.out.WallS = time.Since(c.t0).Seconds()
	for s := range c.sigs {
		c.out.Sigs = append(c.out.Sigs, s)
	}
	sort.Strings(c.out.Sigs)
	c.out.Extra["enumerated_cases"] = c.n
	writeJSON(job.Out, c.out)
}

func hexKey(k string) string { return hex.EncodeToString([]byte(k)) }

// ---- C15: every cut point of a write, every operation boundary of a Set ----

func enumCuts(c *enumCtx) {
	lens := []int{1, 2, 17, 300}
	if c.job.Thorough {
		lens = append(lens, 4097)
	}
	for _, backend := range []string{"fs", "fsenc"} {
		for _, L := range lens {
			for _, prev := range []int{-1, 5, 700} {
				for _, errno := range []string{"ENOSPC", "EIO", "CRASH"} {
					// the value on disk is longer than L: self-describing head (+ nonce and tag when encrypted)
					total := len(sval("p0c1.9", L, 0))
					if backend == "fsenc" {
						total += 28
					}
					step := 1
					if total > 400 && !c.job.Thorough {
						step = 7
					}
					for k := 0; k <= total; k += step {
						if !c.mine() {
							continue
						}
						if c.overBudget() {
							c.out.Extra["budget_exhausted"] = 1
							return
						}
						scn := cutScenario(backend, L, prev, errno, "write", k, c.job.SeedBase)
						c.run(scn)
					}
					if errno == "CRASH" {
						// kill at every operation boundary of the Set
						for _, opk := range []string{"mkdir", "create", "sync", "close"} {
							if !c.mine() {
								continue
							}
							scn := cutScenario(backend, L, prev, errno, opk, 0, c.job.SeedBase)
							c.run(scn)
						}
					}
				}
			}
		}
	}
	c.out.Extra["exhaustive_dimension"] = "write cut point k in 0..len(file) x {ENOSPC, EIO, kill} x previous value {none, shorter, longer} x {plain, encrypted} x value length"
}

func cutScenario(backend string, L, prev int, errno, opKind string, k int, seed uint64) *Scenario {
	scn := &Scenario{Profile: "enum-cut", Seed: mix(seed, uint64(L*100000+k)), Engine: "ssim", Backend: backend, Logger: "discard"}
	scn.Sched = kit.Sched{Strategy: "fifo"}
	scn.Keys = []string{hexKey("http://a.test/r0/x#0")}
	var cl SClient
	nth := 0
	if prev >= 0 {
		cl.Ops = append(cl.Ops, SOp{Kind: "set", Key: 0, ValLen: prev})
		nth = 1
	}
	cl.Ops = append(cl.Ops, SOp{Kind: "set", Key: 0, ValLen: L})
	cl.Ops = append(cl.Ops, SOp{Kind: "get", Key: 0})
	scn.SClients = []SClient{cl}
	scn.Phase2 = []SClient{{Ops: []SOp{{Kind: "get", Key: 0}, {Kind: "set", Key: 0, ValLen: 9}, {Kind: "get", Key: 0}}}}
	f := DiskFault{OpKind: opKind, Nth: nth, Errno: errno, Arg: k}
	if opKind == "mkdir" {
		f.Nth = 0 // MkdirAll(".") issues no mkdir: the fault simply does not fire
	}
	scn.DiskFaults = []DiskFault{f}
	return scn
}

// ---- C17: every byte position of a small encrypted file ----

func enumTamper(c *enumCtx) {
	lens := []int{0, 1, 17, 100}
	if c.job.Thorough {
		lens = append(lens, 300, 484)
	}
	for _, via := range []string{"option", "dsn", "env"} {
		for _, L := range lens {
			total := len(sval("p0c1.0", L, 0)) + 28
			modes := []string{"flip1", "flip80", "fliprand", "trunc"}
			for _, mode := range modes {
				for k := 0; k < total; k++ {
					if !c.mine() {
						continue
					}
					if c.overBudget() {
						c.out.Extra["budget_exhausted"] = 1
						return
					}
					c.run(tamperScenario(via, L, mode, k, c.job.SeedBase))
				}
			}
			for _, mode := range []string{"extend1", "extend16", "empty", "swapnonce"} {
				if c.mine() {
					c.run(tamperScenario(via, L, mode, 0, c.job.SeedBase))
				}
			}
		}
		// large values: every truncation length and every splice offset with the previous ciphertext
		if via == "option" {
			big := []int{40000}
			if c.job.Thorough {
				big = []int{40000, 70000, 140000}
			}
			for _, L := range big {
				for _, mode := range []string{"trunc", "splice"} {
					if c.mine() && !c.overBudget() {
						c.run(sweepScenario(via, L, mode, c.job.SeedBase))
					}
				}
			}
		}
		for _, mode := range []string{"rekey", "open-badkey"} {
			for k := 0; k < map[string]int{"rekey": 6, "open-badkey": badKeyVariants}[mode]; k++ {
				if c.mine() {
					c.run(tamperScenario(via, 50, mode, k, c.job.SeedBase))
				}
			}
		}
	}
	c.out.Extra["exhaustive_dimension"] = "byte position 0..len(file)-1 x {xor 0x01, xor 0x80, xor random} and every truncation length, extension by 1 and 16 bytes, for each way of enabling encryption and each value length"
}

func tamperScenario(via string, L int, mode string, k int, seed uint64) *Scenario {
	scn := &Scenario{Profile: "enum-tamper", Seed: mix(seed, uint64(L*100000+k)), Engine: "ssim", Backend: "fsenc", EncVia: via, Logger: "discard"}
	scn.Sched = kit.Sched{Strategy: "fifo"}
	scn.FsMTime = (k+L)%2 == 1 // every other position also with update_mtime=on (reads touch the file)
	scn.Keys = []string{hexKey("http://a.test/r0/x#0")}
	ops := []SOp{{Kind: "set", Key: 0, ValLen: L, Class: k % 2}, {Kind: "get", Key: 0}}
	switch mode {
	case "rekey":
		ops = append(ops, SOp{Kind: "rekey", Arg: k}, SOp{Kind: "get", Key: 0})
	case "open-badkey":
		ops = append(ops, SOp{Kind: "open-badkey", Arg: k}, SOp{Kind: "get", Key: 0})
	default:
		// the value is read through the connection before it is modified at rest (same length, same mtime) and
		// again afterwards: what the first read left in memory must not stand in for the file
		ops = append(ops, SOp{Kind: "set-same", Key: 0}, SOp{Kind: "get", Key: 0}, SOp{Kind: "corrupt", Key: 0, Mode: mode, Arg: k}, SOp{Kind: "get", Key: 0}, SOp{Kind: "reopen"}, SOp{Kind: "get", Key: 0})
	}
	scn.SClients = []SClient{{Ops: ops}}
	return scn
}

func sweepScenario(via string, L int, mode string, seed uint64) *Scenario {
	scn := &Scenario{Profile: "enum-tamper", Seed: mix(seed, uint64(L*100000+7)), Engine: "ssim", Backend: "fsenc", EncVia: via, Logger: "discard"}
	scn.Sched = kit.Sched{Strategy: "fifo"}
	scn.Keys = []string{hexKey("http://a.test/r0/x#0")}
	ops := []SOp{{Kind: "set", Key: 0, ValLen: L}, {Kind: "set", Key: 0, ValLen: L, Class: 1}, {Kind: "sweep", Key: 0, Mode: mode, Arg: 1}, {Kind: "get", Key: 0}}
	scn.SClients = []SClient{{Ops: ops}}
	return scn
}

// ---- C10: every placement of one store fault / one origin fault in a short history ----

func enumPlacements(c *enumCtx) {
	nBase := 200 // bounded by the wall-clock budget
	if c.job.Thorough {
		nBase = 4000
	}
	for b := 0; b < nBase; b++ {
		if !c.mine() {
			continue
		}
		if c.overBudget() {
			c.out.Extra["budget_exhausted"] = 1
			return
		}
		base := Gen("placement", mix(c.job.SeedBase, uint64(b)), false)
		br, _ := c.run(base)
		if br.Sim.Ambiguous > 0 {
			continue
		}
		// logging must not change behaviour: identical event log under every logger
		for _, lg := range []string{"text", "json", "text-info"} {
			v := cloneScn(base)
			v.Logger = lg
			vr, _ := c.run(v)
			c.out.Judgements["C10/log-dependence"]++
			if vr.Sim.Digest() != br.Sim.Digest() && !c.seen["log-dependence"] {
				c.seen["log-dependence"] = true
				sc := *v
				sc.Decisions = append([]int(nil), vr.Sim.T.Rec...)
				c.out.Found = append(c.out.Found, Found{Seed: v.Seed, Profile: v.Profile, Scenario: &sc, Digest: vr.Sim.Digest(),
					V: Violation{Prop: "C10", Rule: "log-dependence", Sig: "log-dependence", Msg: fmt.Sprintf("the same scenario and schedule produce event-log digest %s with logger %q but %s with the discard logger", vr.Sim.Digest(), lg, br.Sim.Digest())}})
			}
		}
		nStore, nCalls := len(br.Store), len(br.Calls)
		var singles []func(*Scenario)
		for i := 0; i < nStore && i < 60; i++ {
			kind := br.Store[i].Kind
			var fks []string
			switch kind {
			case "get":
				fks = []string{"err", "timeout", "notexist", "trunc", "flip", "corpus", "foreign"}
			case "set":
				fks = []string{"err", "err-applied"}
			case "delete":
				fks = []string{"err"}
			}
			for _, fk := range fks {
				args := []int{0}
				if fk == "corpus" {
					args = make([]int, len(corpus))
					for a := range args {
						args[a] = a
					}
				}
				if fk == "trunc" || fk == "flip" {
					args = []int{0, 1, 17, 60, 123, 250, 1001}
				}
				for _, a := range args {
					i, fk, a := i, fk, a
					singles = append(singles, func(s *Scenario) {
						s.StoreFaults = append(s.StoreFaults, StoreFault{OpKind: "any", Nth: i, Kind: fk, Arg: a})
					})
				}
			}
		}
		for i := 0; i < nCalls && i < 20; i++ {
			for _, uf := range []UpFault{{Fault: "err"}, {Fault: "status", Status: 500}, {Fault: "status", Status: 503}, {Fault: "status", Status: 404}, {Fault: "reset", At: 0}, {Fault: "reset", At: 20}, {Fault: "eof", At: 5}, {Fault: "reset", At: -50}, {Fault: "hang"}, {Fault: "stall5xx", Status: 503, At: 3}, {Fault: "eofhuge", At: 7}} {
				i, uf := i, uf
				uf.Nth = i
				singles = append(singles, func(s *Scenario) { s.UpFaults = append(s.UpFaults, uf) })
			}
		}
		for fi, f := range singles {
			if c.overBudget() {
				c.out.Extra["budget_exhausted"] = 1
				break
			}
			v := cloneScn(base)
			f(v)
			// "behaviour is the same with logging enabled at any level": the handler rotates over the placements
			v.Logger = []string{"discard", "text", "json", "text-info"}[(fi+b)%4]
			c.run(v)
		}
		// pairs: all when few sites, sampled otherwise
		g := &gen{Rand: newRand(mix(c.job.SeedBase, uint64(b)+77))}
		nPairs := 150
		if len(singles) <= 12 {
			nPairs = len(singles) * len(singles)
		}
		if !c.job.Thorough {
			nPairs = min(nPairs, 40)
		}
		for p := 0; p < nPairs && len(singles) > 1 && !c.overBudget(); p++ {
			v := cloneScn(base)
			singles[g.IntN(len(singles))](v)
			singles[g.IntN(len(singles))](v)
			v.Logger = []string{"discard", "text", "json", "text-info"}[p%4]
			c.run(v)
		}
	}
	c.out.Extra["exhaustive_dimension"] = "every single placement (store operation index x fault kind x argument, upstream call index x failure kind) in each sampled base history; pairs sampled"
}
