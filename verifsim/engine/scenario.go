// Package engine holds the two simulation engines (tsim: whole transport
// stack; ssim: store level), the simulated origin, the recording store
// wrapper, the oracles and the scenario generators.
package engine

import "github.com/bartventer/httpcache/verifsim/kit"

// Scenario is everything that is decided before a run starts. Together with
// the decision list in Sched it fixes an execution exactly.
type Scenario struct {
	Profile string `json:"profile"`
	Seed    uint64 `json:"seed"`
	Engine  string `json:"engine"` // "tsim" | "ssim"

	Backend  string `json:"backend"`           // "mem" | "fs" | "fsenc"
	EncVia   string `json:"enc_via,omitempty"` // "option" | "dsn" | "env"
	Logger   string `json:"logger"`            // "discard" | "text" | "json"
	SWRSet   bool   `json:"swr_set,omitempty"`
	MaxConns int    `json:"max_conns,omitempty"` // >0: the upstream transport keeps at most this many connections (net/http MaxConnsPerHost): a response body holds one until it is read to its end, fails, is closed, or its request context ends
	TZMin    int    `json:"tz_min,omitempty"`    // offset of the process time zone from UTC in minutes (time.Local during the run)
	SWRNs    int64  `json:"swr_ns,omitempty"`
	Jitter   bool   `json:"jitter,omitempty"` // nanosecond jitter in durations (else whole seconds)
	StoreLat int64  `json:"store_lat_ns,omitempty"`
	WChunk   int    `json:"write_chunk,omitempty"` // split disk writes into chunks of this size (0: whole)
	RChunk   int    `json:"read_chunk,omitempty"`  // short reads: at most this many bytes per read (0: whole)

	Sched     kit.Sched `json:"sched"`
	SchedSeed uint64    `json:"sched_seed"`
	Decisions []int     `json:"decisions,omitempty"` // explicit run-time decisions (replay); empty: PRNG from SchedSeed
	Pair      bool      `json:"pair,omitempty"`

	Resources []Resource `json:"resources,omitempty"`
	Clients   []Client   `json:"clients,omitempty"`
	Clients2  []Client   `json:"clients2,omitempty"` // second incarnation (after the first ended or was killed)

	StoreFaults []StoreFault `json:"store_faults,omitempty"`
	UpFaults    []UpFault    `json:"up_faults,omitempty"`
	Checkpoints []int        `json:"checkpoints,omitempty"` // record the store footprint after this many exchanges
	FinalPurge  bool         `json:"final_purge,omitempty"` // the run ends with an unsafe request to every URI
	DiskFaults  []DiskFault  `json:"disk_faults,omitempty"`

	// ssim only
	SClients    []SClient `json:"sclients,omitempty"`
	Phase2      []SClient `json:"phase2,omitempty"`        // clients started after phase 1 ended (or was killed) on a reopened backend
	FsMTime     bool      `json:"fs_mtime,omitempty"`      // file-system backends: update_mtime=on (reads touch the file's modification time)
	FsTimeoutNs int64     `json:"fs_timeout_ns,omitempty"` // store-level: operation timeout of the file-system backend (0 = default, 5 min)
	Disjoint    bool      `json:"disjoint,omitempty"`      // store-level: client i is the only one that touches key i
	Keys        []string  `json:"keys,omitempty"`          // key table (base64 in JSON would be nicer; Go strings may hold any bytes, JSON-escaped)
}

type Resource struct {
	Host   string     `json:"host"`              // canonical lower-case host[:port]
	Path   string     `json:"path"`              // canonical path, contains the marker /r<N>/
	Query  string     `json:"query"`             // canonical query ("" = none)
	LMBase int64      `json:"lm_base,omitempty"` // version 0 was last modified this many seconds before the epoch
	Plans  []RespPlan `json:"plans"`
}

// RespPlan scripts one answer of the origin. The i-th request for a resource
// (any method) consumes Plans[i % len(Plans)].
type RespPlan struct {
	Status    int         `json:"status"`
	CC        string      `json:"cc,omitempty"`
	CCStyle   string      `json:"cc_style,omitempty"`  // "" | "lines" (one field line per directive) | "case" (directive names in mixed case)
	DateMode  string      `json:"date,omitempty"`      // "" = now | "skew" | "absent" | "invalid"
	DateSkew  int64       `json:"date_skew,omitempty"` // seconds added to now
	Age       string      `json:"age,omitempty"`       // literal Age value ("" absent); "dup:a,b" = two field lines
	ExpMode   string      `json:"exp,omitempty"`       // "" absent | "rel" (Date+ExpDelta) | "zero" | "invalid"
	ExpDelta  int64       `json:"exp_delta,omitempty"`
	LMMode    string      `json:"lm,omitempty"`   // "" absent | "rel" (the version's modification time) | "invalid"
	ETag      string      `json:"etag,omitempty"` // "" absent | "strong" | "weak"
	Vary      string      `json:"vary,omitempty"`
	VaryLines bool        `json:"vary_lines,omitempty"` // send Vary as one field line per member
	Extra     [][2]string `json:"extra,omitempty"`      // further end-to-end fields (may repeat names)
	Hop       [][2]string `json:"hop,omitempty"`        // hop-by-hop fields incl. Connection
	Trailer   [][2]string `json:"trailer,omitempty"`

	BodyLen   int    `json:"body_len"`
	BodyClass int    `json:"body_class,omitempty"` // 0 ascii, 1 binary, 2 http-like text
	Framing   string `json:"framing,omitempty"`    // "" = cl | "chunked" | "close" | "h10" | "h10close" | "h2" | "h2nolen"
	Chunks    []int  `json:"chunks,omitempty"`     // wire chunk sizes after the header block (remaining in one)

	LatNs      int64  `json:"lat_ns,omitempty"`       // before the header
	ChunkLatNs int64  `json:"chunk_lat_ns,omitempty"` // before each later wire chunk
	HugeCL     bool   `json:"huge_cl,omitempty"`      // the header block declares Content-Length 2^47 (whatever follows is then cut short)
	Fault      string `json:"fault,omitempty"`        // "" | "err" | "hang" | "reset" (at wire byte FaultAt) | "eof" (at wire byte FaultAt)
	FaultAt    int    `json:"fault_at,omitempty"`

	Change  bool   `json:"change,omitempty"`   // representation changes before this answer
	No304   bool   `json:"no304,omitempty"`    // answer validators with a full response anyway
	Bare304 bool   `json:"bare_304,omitempty"` // a 304 from this plan carries only Date and the validators (no provenance marker, nothing to update)
	Loc     string `json:"loc,omitempty"`      // Location: "" | "rel" | "abs" (same origin) | "cross"
	CLoc    string `json:"cloc,omitempty"`     // Content-Location, same alphabet
	LocRes  int    `json:"loc_res,omitempty"`
	CLocRes int    `json:"cloc_res,omitempty"`
}

type Client struct {
	Ops []Op `json:"ops"`
}

type Op struct {
	ThinkNs     int64       `json:"think_ns,omitempty"`
	Method      string      `json:"method,omitempty"` // "" = GET
	Res         int         `json:"res"`
	Spelling    int         `json:"spelling,omitempty"` // URI spelling transformation index
	CC          string      `json:"cc,omitempty"`
	CCStyle     string      `json:"cc_style,omitempty"` // "" | "lines" (one field line per directive) | "case" (directive names in mixed case)
	Hdr         [][2]string `json:"hdr,omitempty"`
	Range       bool        `json:"range,omitempty"`
	Cond        string      `json:"cond,omitempty"`      // client-supplied conditional: "" | "inm-current" | "inm-bogus" | "ims"
	CancelNs    int64       `json:"cancel_ns,omitempty"` // >0: cancel the context that long after invoke; <0: before the call
	Read        string      `json:"read,omitempty"`      // "" = all | "partial" | "close"
	Poison      bool        `json:"poison,omitempty"`
	Reuse       bool        `json:"reuse,omitempty"`        // send the very *http.Request value of this client's previous identical operation again (a polling loop)
	EmptyMethod bool        `json:"empty_method,omitempty"` // send the GET with Method "" (what a struct-literal http.Request has)
	OddURL      string      `json:"odd_url,omitempty"`      // a request URL of unusual shape (relative, IPv6 zone, no host, opaque ...) for a path no resource owns: the origin refuses it
	Admin       string      `json:"admin,omitempty"`        // "" | "restart" | "crash" | "corrupt" | "dump" | "evict" | "clock-step" (AdminArg: seconds, signed)
	AdminArg    int         `json:"admin_arg,omitempty"`
}

// StoreFault addresses the Nth operation of a kind at the Conn seam (counted in grant order).
type StoreFault struct {
	OpKind string `json:"op"`   // "get" | "set" | "delete" | "any"
	Nth    int    `json:"nth"`  // 0-based among operations of that kind
	Kind   string `json:"kind"` // get: err notexist trunc flip corpus foreign ; set: err err-applied ; delete: err
	Arg    int    `json:"arg,omitempty"`
}

// UpFault overrides the scripted behaviour of the Nth upstream call of the run.
type UpFault struct {
	Nth    int    `json:"nth"`
	Fault  string `json:"fault"` // "err" | "hang" | "reset" | "eof" | "status"
	At     int    `json:"at,omitempty"`
	Status int    `json:"status,omitempty"`
}

// DiskFault addresses the Nth simulated disk call of a kind.
type DiskFault struct {
	OpKind   string `json:"op"`            // "write" "sync" "open" "create" "read" "rename" "remove" "mkdir" "readdir" "close" "any"
	Nth      int    `json:"nth"`           // 0-based among calls of that kind
	Errno    string `json:"errno"`         // ENOSPC EIO EDQUOT EMFILE ; "CRASH" = process kill at this call
	Arg      int    `json:"arg,omitempty"` // write: bytes applied before the error / kill (permille of the write if ArgPermille)
	Permille bool   `json:"permille,omitempty"`
}

// ---- ssim ----

type SClient struct {
	Ops []SOp `json:"ops"`
}

type SOp struct {
	Kind   string `json:"kind"` // set get delete keys reopen api-get api-delete api-list set-mutate get-mutate set-same corrupt rekey open-badkey
	Arg    int    `json:"arg,omitempty"`
	Mode   string `json:"mode,omitempty"`
	Key    int    `json:"key"` // index into Scenario.Keys
	ValLen int    `json:"val_len,omitempty"`
	Twin   int    `json:"twin,omitempty"` // set: >0 = the value is shared by every Set with the same Twin, ValLen and Class
	Class  int    `json:"class,omitempty"`
	Prefix int    `json:"prefix,omitempty"` // keys: prefix length taken from Keys[Key]
}
