package engine

import (
	"bytes"
	"context"
	"encoding/base64"
	"encoding/hex"
	"encoding/json"
	"errors"
	"fmt"
	"hash/crc32"
	"net/http"
	"net/http/httptest"
	"net/url"
	"sort"
	"strconv"
	"strings"
	"sync"
	"time"

	"github.com/anishathalye/porcupine"
	"github.com/bartventer/httpcache/store"
	"github.com/bartventer/httpcache/store/driver"
	"github.com/bartventer/httpcache/store/expapi"
	"github.com/bartventer/httpcache/store/fscache"
	"github.com/bartventer/httpcache/verifsim/kit"
	"github.com/bartventer/httpcache/verifsim/simgo"
	"github.com/bartventer/httpcache/verifsim/simos"
	"github.com/bartventer/httpcache/verifsim/simrand"
	"github.com/bartventer/httpcache/verifsim/simsync"
)

// SHist is one store-level operation in the recorded history.
type SHist struct {
	Client   string
	Phase    int
	Idx      int
	Op       *SOp
	Key      string
	ValID    string // set: id of the value written
	Val      []byte
	Inv      uint64
	Ret      uint64 // 0: never returned (killed)
	OK       bool
	NotEx    bool
	Err      string
	Got      []byte
	TimedOut bool   // the backend's operation timeout ended the call; the operation itself may still be running
	GotID    string // get: id of the value returned ("" if not one of the values set)
	Keys     []string
	API      bool
	Status   int
	Isolate  string // buffer-isolation result
	Skipped  bool
	File     []byte // fsenc: raw content of the key's file after a Set
	SweepN   int    // sweep: files tried
}

type keyLister interface {
	Keys(prefix string) ([]string, error)
}

func sval(id string, n, class int) []byte {
	if n < 0 {
		n = 0
	}
	pay := make([]byte, n)
	x := crc32.ChecksumIEEE([]byte(id))
	for i := range pay {
		x = x*1664525 + 1013904223
		switch class {
		case 1:
			pay[i] = byte(x >> 24)
		default:
			pay[i] = "abcdefghijklmnopqrstuvwxyz0123456789"[(x>>24)%36]
		}
	}
	hdr := fmt.Sprintf("{{%s|%d|%08x}}", id, n, crc32.ChecksumIEEE(pay))
	return append([]byte(hdr), pay...)
}

// svalID recognises a complete self-describing value.
func svalID(v []byte) string {
	if !bytes.HasPrefix(v, []byte("{{")) {
		return ""
	}
	i := bytes.Index(v, []byte("}}"))
	if i < 0 {
		return ""
	}
	parts := strings.Split(string(v[2:i]), "|")
	if len(parts) != 3 {
		return ""
	}
	n, err := strconv.Atoi(parts[1])
	if err != nil || len(v)-(i+2) != n {
		return ""
	}
	if fmt.Sprintf("%08x", crc32.ChecksumIEEE(v[i+2:])) != parts[2] {
		return ""
	}
	return parts[0]
}

func (r *Run) fsTimeoutParam() string {
	p := ""
	if r.Scn.FsTimeoutNs > 0 {
		p += "&timeout=" + time.Duration(r.Scn.FsTimeoutNs).String()
	}
	if r.Scn.FsMTime {
		p += "&update_mtime=on"
	}
	return p
}

func (r *Run) ssimDSN() string {
	switch r.Scn.Backend {
	case "fsenc":
		return "fscache:///simcache?appname=app&encrypt=aesgcm&encrypt_key=" + r.ssimKey() + r.fsTimeoutParam()
	case "fs":
		return "fscache:///simcache?appname=app" + r.fsTimeoutParam()
	}
	return "memcache://"
}

func (r *Run) ssimKey() string {
	if r.encKey != "" {
		return r.encKey
	}
	return simKeyB64
}

func (r *Run) ssimOpen() (driver.Conn, error) {
	switch r.Scn.Backend {
	case "fsenc":
		switch r.Scn.EncVia {
		case "option":
			return fscache.Open("app", fscache.WithBaseDir("/simcache"), fscache.WithEncryption(r.ssimKey()), fscache.WithTimeout(time.Duration(r.Scn.FsTimeoutNs)), fscache.WithUpdateMTime(r.Scn.FsMTime))
		case "env":
			simos.Setenv("FSCACHE_ENCRYPT_KEY", r.ssimKey())
			defer simos.Unsetenv("FSCACHE_ENCRYPT_KEY")
			return store.Open("fscache:///simcache?appname=app&encrypt=on" + r.fsTimeoutParam())
		}
		return store.Open(r.ssimDSN())
	case "fs":
		return store.Open(r.ssimDSN())
	}
	return store.Open("memcache://")
}

// RunSsim executes a store-level scenario in the calling bubble.
func RunSsim(scn *Scenario) *Run {
	r := newRun(scn)
	tape := kit.NewTape(scn.Decisions, scn.SchedSeed, len(scn.Decisions) == 0)
	r.Sim = kit.New(tape, scn.Sched)
	simos.Reset(diskHook{r})
	simrand.SetHook(r.randHook)
	simgo.SetHook(r.goHook)
	simsync.SetHook(r.lockHook)
	simos.WriteChunk = scn.WChunk
	if scn.Backend == "fsenc" {
		r.plainWatch = true
	}
	var mu sync.Mutex
	done := false
	started := make(chan struct{})
	var all sync.WaitGroup
	all.Add(1)
	go func() {
		defer all.Done()
		g := r.Sim.Register("sup")
		close(started)
		r.Sim.Yield("sup")
		phases := [][]SClient{scn.SClients, scn.Phase2}
		for ph, cls := range phases {
			if ph == 1 && len(cls) == 0 {
				break
			}
			r.Sim.Adopt(g)
			r.mu.Lock()
			r.curPhase = ph
			r.mu.Unlock()
			conn, err := r.ssimOpen()
			g = r.Sim.Yield("sup-open")
			if r.Sim.Aborted() {
				break
			}
			if err != nil {
				r.Sim.Event(g, "open.err", err.Error())
				r.OpenErr = err.Error()
				break
			}
			r.Sim.Event(g, "open", fmt.Sprintf("phase=%d backend=%s", ph, scn.Backend))
			r.setConn(conn)
			var wg sync.WaitGroup
			for ci := range cls {
				wg.Add(1)
				all.Add(1)
				go func() {
					defer all.Done()
					defer wg.Done()
					r.sclient(ph, ci, &cls[ci])
				}()
			}
			wg.Wait()
			if r.Sim.Aborted() {
				break
			}
		}
		mu.Lock()
		done = true
		mu.Unlock()
	}()
	<-started
	r.Sim.Run(func() bool { mu.Lock(); defer mu.Unlock(); return done }, drainSpan)
	r.VirtSpan = r.Sim.Now()
	r.DiskEnd = simos.Snapshot()
	r.Sim.Abort()
	all.Wait()
	simos.SetHook(nil)
	simrand.SetHook(nil)
	simgo.SetHook(nil)
	simsync.SetHook(nil)
	return r
}

// key decodes entry i of the scenario's (hex-encoded, so that JSON preserves arbitrary bytes) key table.
func (r *Run) key(i int) string {
	b, err := hex.DecodeString(r.Scn.Keys[i%len(r.Scn.Keys)])
	if err != nil {
		panic(err)
	}
	return string(b)
}

func (r *Run) allKeys() []string {
	out := make([]string, len(r.Scn.Keys))
	for i := range r.Scn.Keys {
		out[i] = r.key(i)
	}
	return out
}

func (r *Run) setConn(c driver.Conn) {
	r.mu.Lock()
	r.sconn = c
	r.mu.Unlock()
}

func (r *Run) getConn() driver.Conn {
	r.mu.Lock()
	defer r.mu.Unlock()
	return r.sconn
}

func (r *Run) sclient(phase, ci int, cl *SClient) {
	name := fmt.Sprintf("p%dc%d", phase, ci+1)
	g := r.Sim.Register(name)
	for oi := range cl.Ops {
		op := &cl.Ops[oi]
		g.SetOp(oi)
		r.Sim.Yield("sop")
		if r.Sim.Aborted() {
			return
		}
		key := r.key(op.Key)
		h := &SHist{Client: name, Phase: phase, Idx: oi, Op: op, Key: key}
		r.mu.Lock()
		r.SHists = append(r.SHists, h)
		r.mu.Unlock()
		conn := r.getConn()
		ret := func(info string) {
			g = r.Sim.Yield("sret")
			if r.Sim.Aborted() {
				return
			}
			h.Ret = r.Sim.Event(g, "s.ret", info)
		}
		switch op.Kind {
		case "set", "set-mutate", "set-same":
			h.ValID = fmt.Sprintf("%s.%d", name, oi)
			if op.Twin > 0 {
				h.ValID = fmt.Sprintf("twin%d", op.Twin)
			}
			h.Val = sval(h.ValID, op.ValLen, op.Class)
			if op.Kind == "set-same" {
				// exactly the bytes of the previous Set of this key
				for k := len(r.SHists) - 2; k >= 0; k-- {
					if p := r.SHists[k]; p.Key == key && p.Val != nil {
						h.ValID, h.Val = p.ValID, p.Val
						break
					}
				}
			}
			if r.plainWatch {
				r.addPlain(h.Val)
			}
			buf := append([]byte(nil), h.Val...)
			h.Inv = r.Sim.Event(g, "s.set", fmt.Sprintf("k%d %s len=%d", op.Key, h.ValID, len(buf)))
			err := conn.Set(key, buf)
			if op.Kind == "set-mutate" {
				for i := range buf {
					buf[i] ^= 0x5a
				}
			}
			h.OK = err == nil
			if err != nil {
				h.Err = err.Error()
				r.noteTimeout(h, err)
			}
			if r.Scn.Backend == "fsenc" {
				h.File = r.onlyFile()
			}
			ret(fmt.Sprintf("set err=%v", err != nil))
		case "corrupt":
			path, content := r.onlyFileNamed()
			h.Inv = r.Sim.Event(g, "s.corrupt", fmt.Sprintf("%s mode=%s arg=%d len=%d", path, op.Mode, op.Arg, len(content)))
			changed := false
			if path != "" {
				_ = simos.Corrupt(path, func(b []byte) []byte {
					orig := append([]byte(nil), b...)
					switch op.Mode {
					case "flip1", "flip80", "fliprand":
						if len(b) > 0 {
							m := map[string]byte{"flip1": 0x01, "flip80": 0x80, "fliprand": byte(1 + (op.Arg*37+11)%255)}[op.Mode]
							b[op.Arg%len(b)] ^= m
						}
					case "trunc":
						b = b[:op.Arg%(len(b)+1)]
					case "extend1":
						b = append(b, 0x00)
					case "extend16":
						b = append(b, bytes.Repeat([]byte{0xab}, 16)...)
					case "empty":
						b = nil
					case "swapnonce":
						if len(b) > 24 {
							for i := 0; i < 12; i++ {
								b[i], b[12+i] = b[12+i], b[i]
							}
						}
					}
					changed = !bytes.Equal(orig, b)
					return b
				})
			}
			h.OK = changed
			r.fired("disk.at-rest-" + op.Mode)
			ret(fmt.Sprintf("corrupt changed=%v", changed))
		case "sweep":
			// a large encrypted file, cut at every length (Mode trunc) or joined at every offset with the
			// previous ciphertext of the same value length (Mode splice): none of these files may be accepted
			path, cur := r.onlyFileNamed()
			var prev []byte
			for k := len(r.SHists) - 2; k >= 0 && op.Mode == "splice"; k-- {
				if p := r.SHists[k]; p.Key == key && len(p.File) == len(cur) && !bytes.Equal(p.File, cur) {
					prev = p.File
					break
				}
			}
			h.Inv = r.Sim.Event(g, "s.sweep", fmt.Sprintf("%s mode=%s len=%d", path, op.Mode, len(cur)))
			h.Status = -1
			step := max(op.Arg, 1)
			for k := 0; k < len(cur) && path != "" && h.Status < 0; k += step {
				var mod []byte
				if op.Mode == "splice" {
					if prev == nil || k == 0 {
						continue
					}
					mod = append(append([]byte(nil), prev[:k]...), cur[k:]...)
					if bytes.Equal(mod, cur) || bytes.Equal(mod, prev) {
						continue
					}
				} else {
					mod = cur[:k]
				}
				_ = simos.Corrupt(path, func([]byte) []byte { return mod })
				got, err := conn.Get(key)
				h.SweepN++
				if err == nil {
					h.Status, h.Got = k, got
				}
			}
			if path != "" {
				_ = simos.Corrupt(path, func([]byte) []byte { return cur })
			}
			h.OK = h.Status >= 0
			r.fired("disk.at-rest-sweep-" + op.Mode)
			ret(fmt.Sprintf("sweep n=%d accepted=%d", h.SweepN, h.Status))
		case "rekey":
			h.Inv = r.Sim.Event(g, "s.rekey", "")
			r.encKey = []string{"ZmVkY2JhOTg3NjU0MzIxMGZlZGNiYTk4NzY1NDMyMTA=", "MDEyMzQ1Njc4OWFiY2RlZg==", "ZmVkY2JhOTg3NjU0MzIxMGZlZGNiYTk4"}[op.Arg%3]
			c2, err := r.ssimOpen()
			h.OK = err == nil
			if err == nil {
				r.setConn(c2)
			} else {
				h.Err = err.Error()
			}
			r.fired("config.wrong-key")
			ret(fmt.Sprintf("rekey ok=%v", h.OK))
		case "open-badkey":
			h.Inv = r.Sim.Event(g, "s.open-badkey", fmt.Sprintf("variant=%d", op.Arg%badKeyVariants))
			c2, err := r.openBadKey(op.Arg % badKeyVariants)
			h.OK = err == nil
			if err != nil {
				h.Err = err.Error()
			} else {
				// a backend that opened although encryption was requested without a usable key: does it write plaintext?
				v := sval("badkey", 64, 0)
				r.addPlain(v)
				_ = c2.Set(key+"-badkey", v)
			}
			r.fired("config.unusable-key")
			ret(fmt.Sprintf("open-badkey opened=%v", h.OK))
		case "get", "get-mutate":
			h.Inv = r.Sim.Event(g, "s.get", fmt.Sprintf("k%d", op.Key))
			v, err := conn.Get(key)
			if err != nil {
				h.Err, h.NotEx = err.Error(), errors.Is(err, driver.ErrNotExist)
				r.noteTimeout(h, err)
			} else {
				h.OK, h.Got, h.GotID = true, append([]byte(nil), v...), svalID(v)
			}
			if op.Kind == "get-mutate" && err == nil {
				for i := range v {
					v[i] ^= 0xa5
				}
			}
			ret(fmt.Sprintf("get ok=%v notex=%v id=%s len=%d", h.OK, h.NotEx, h.GotID, len(h.Got)))
		case "delete":
			h.Inv = r.Sim.Event(g, "s.del", fmt.Sprintf("k%d", op.Key))
			err := conn.Delete(key)
			h.OK = err == nil
			if err != nil {
				h.Err, h.NotEx = err.Error(), errors.Is(err, driver.ErrNotExist)
				r.noteTimeout(h, err)
			}
			ret(fmt.Sprintf("del ok=%v notex=%v", h.OK, h.NotEx))
		case "keys":
			kl, ok := conn.(keyLister)
			if !ok {
				h.Inv = r.Sim.Event(g, "s.keys", "unsupported")
				h.Err = "unsupported"
				ret("keys unsupported")
				continue
			}
			pfx := key[:min(op.Prefix, len(key))]
			h.Key = pfx
			h.Inv = r.Sim.Event(g, "s.keys", fmt.Sprintf("prefix of k%d len=%d", op.Key, len(pfx)))
			ks, err := kl.Keys(pfx)
			h.OK = err == nil
			if err != nil {
				h.Err = err.Error()
			}
			sort.Strings(ks)
			h.Keys = ks
			ret(fmt.Sprintf("keys ok=%v n=%d", h.OK, len(ks)))
		case "reopen":
			h.Inv = r.Sim.Event(g, "s.reopen", "")
			if r.Scn.Backend == "mem" {
				ret("reopen skipped")
				continue
			}
			c2, err := r.ssimOpen()
			h.OK = err == nil
			if err == nil {
				r.setConn(c2)
			} else {
				h.Err = err.Error()
			}
			ret(fmt.Sprintf("reopen ok=%v", h.OK))
		case "api-get", "api-delete", "api-list":
			h.API = true
			if op.Kind != "api-list" && !routable(key) {
				// not addressable through a URL path segment by construction: not exercised
				h.Inv = r.Sim.Event(g, "s."+op.Kind, "skipped (key not routable)")
				h.Skipped = true
				ret("skipped")
				continue
			}
			r.apiOp(g, h, op, key, ret)
		}
	}
}

var apiOnce sync.Once
var apiMux *http.ServeMux

func (r *Run) apiOp(g *kit.Gor, h *SHist, op *SOp, key string, ret func(string)) {
	apiOnce.Do(func() {
		apiMux = http.NewServeMux()
		expapi.Register(expapi.WithServeMux(apiMux))
	})
	dsn := url.QueryEscape(r.ssimDSN())
	var req *http.Request
	switch op.Kind {
	case "api-get":
		req = httptest.NewRequest("GET", "/debug/httpcache/"+url.PathEscape(key)+"?dsn="+dsn, nil)
	case "api-delete":
		req = httptest.NewRequest("DELETE", "/debug/httpcache/"+url.PathEscape(key)+"?dsn="+dsn, nil)
	default:
		pfx := key[:min(op.Prefix, len(key))]
		h.Key = pfx
		req = httptest.NewRequest("GET", "/debug/httpcache?dsn="+dsn+"&prefix="+url.QueryEscape(pfx), nil)
	}
	h.Inv = r.Sim.Event(g, "s."+op.Kind, fmt.Sprintf("k%d", op.Key))
	rec := httptest.NewRecorder()
	apiMux.ServeHTTP(rec, req)
	h.Status = rec.Code
	h.Got = append([]byte(nil), rec.Body.Bytes()...)
	switch op.Kind {
	case "api-get":
		h.OK = rec.Code == 200
		h.NotEx = rec.Code == 404
		h.GotID = svalID(h.Got)
	case "api-delete":
		h.OK = rec.Code == 204
		h.NotEx = rec.Code == 404
	default:
		h.OK = rec.Code == 200
		var m map[string][]string
		if json.Unmarshal(h.Got, &m) == nil {
			h.Keys = m["keys"]
			sort.Strings(h.Keys)
		}
	}
	if !h.OK && !h.NotEx {
		h.Err = fmt.Sprintf("status %d: %s", rec.Code, strings.TrimSpace(rec.Body.String()))
	}
	ret(fmt.Sprintf("%s status=%d", op.Kind, rec.Code))
}

// noteTimeout marks an operation ended by the backend's own operation timeout (a fault kind: the disk was
// slower than the configured limit). The operation's goroutine may complete it later.
func (r *Run) noteTimeout(h *SHist, err error) {
	if errors.Is(err, context.DeadlineExceeded) {
		h.TimedOut = true
		r.fired("store.op-timeout")
	}
}

func (r *Run) onlyFileNamed() (string, []byte) {
	files := simos.Snapshot()
	names := make([]string, 0, len(files))
	for k := range files {
		names = append(names, k)
	}
	sort.Strings(names)
	if len(names) == 0 {
		return "", nil
	}
	return names[0], files[names[0]]
}

// onlyFile returns the content of the disk's single regular file, nil if there is not exactly one
// (with several files the harness does not know which one belongs to a key).
func (r *Run) onlyFile() []byte {
	files := simos.Snapshot()
	if len(files) != 1 {
		return nil
	}
	for _, c := range files {
		return c
	}
	return nil
}

// badKeyVariants: ways of asking for encryption without a usable key (openBadKey)
const badKeyVariants = 10

func (r *Run) openBadKey(variant int) (driver.Conn, error) {
	simos.Unsetenv("FSCACHE_ENCRYPT_KEY")
	switch variant {
	case 0:
		return store.Open("fscache:///simcache?appname=app&encrypt=on")
	case 1:
		return fscache.Open("app", fscache.WithBaseDir("/simcache"), fscache.WithEncryption(""))
	case 2:
		return fscache.Open("app", fscache.WithBaseDir("/simcache"), fscache.WithEncryption("not base64 at all !!"))
	case 3:
		return store.Open("fscache:///simcache?appname=app&encrypt=aesgcm&encrypt_key=MDEyMzQ1Njc4OQ==")
	case 4:
		return store.Open("fscache:///simcache?appname=app&encrypt=aesgcm&encrypt_key=")
	case 6, 7, 8, 9:
		// keys that decode to more bytes than any AES key has (33, 40, 48, 64), through every way of passing one
		k := base64.URLEncoding.EncodeToString(bytes.Repeat([]byte{'k'}, []int{33, 40, 48, 64}[variant-6]))
		switch variant {
		case 6, 9:
			return fscache.Open("app", fscache.WithBaseDir("/simcache"), fscache.WithEncryption(k))
		case 7:
			return store.Open("fscache:///simcache?appname=app&encrypt=aesgcm&encrypt_key=" + k)
		}
		simos.Setenv("FSCACHE_ENCRYPT_KEY", k)
		defer simos.Unsetenv("FSCACHE_ENCRYPT_KEY")
		return store.Open("fscache:///simcache?appname=app&encrypt=on")
	default:
		simos.Setenv("FSCACHE_ENCRYPT_KEY", "c2hvcnQ=")
		defer simos.Unsetenv("FSCACHE_ENCRYPT_KEY")
		return store.Open("fscache:///simcache?appname=app&encrypt=on")
	}
}

func (r *Run) addPlain(v []byte) {
	r.mu.Lock()
	defer r.mu.Unlock()
	// distinctive windows of the plaintext: the self-describing head and a few interior windows
	if len(v) >= 8 {
		r.diskPlain = append(r.diskPlain, append([]byte(nil), v[:min(16, len(v))]...))
	}
	for _, off := range []int{len(v) / 3, len(v) / 2, len(v) - 12} {
		if off > 16 && off+8 <= len(v) {
			r.diskPlain = append(r.diskPlain, append([]byte(nil), v[off:off+8]...))
		}
	}
}

// ---------------- store-level oracles ----------------

func routable(key string) bool {
	// keys made only of '/' and '.' are rewritten or rejected by URL path cleaning before they
	// reach the handler; everything else travels as one escaped path segment
	return strings.Trim(key, "/.") != ""
}

func keyClass(k string) string {
	switch {
	case k == "":
		return "empty"
	case len(k) > 191:
		return "fragmented"
	}
	return "flat"
}

func JudgeSsim(r *Run) *Judged {
	j := &Judged{Judgements: map[string]int{}}
	if r.Sim == nil {
		return j
	}
	sequential := len(r.Scn.SClients) == 1 && len(r.Scn.Phase2) <= 1 && len(r.Scn.DiskFaults) == 0
	for _, h := range r.SHists {
		switch h.Op.Kind {
		case "corrupt", "rekey", "open-badkey":
			sequential = false
		}
	}
	vfail := func(prop, rule, sig string, h *SHist, format string, a ...any) {
		v := Violation{Prop: prop, Rule: rule, Msg: fmt.Sprintf(format, a...), Sig: rule}
		if sig != "" {
			v.Sig = rule + ":" + sig
		}
		if h != nil {
			v.Seq, v.Op = h.Ret, h.Idx
			if v.Seq == 0 {
				v.Seq = h.Inv
			}
		}
		j.Violations = append(j.Violations, v)
	}
	if r.OpenErr != "" && !firedPrefix(r.Faults, "disk.") {
		vfail("C14", "open-failed", "", nil, "backend could not be opened: %s", r.OpenErr)
	}
	// ---- C14: refinement against a map (sequential, fault-free) ----
	if sequential {
		model := map[string][]byte{}
		ids := map[string]string{}
		collide := func(k string) string {
			// discriminating feature for known findings: the key's file name is (a prefix of) the
			// directory path of another key of this run, or vice versa
			for _, o := range r.allKeys() {
				if o == k {
					continue
				}
				a, b := k, o
				if len(a) > len(b) {
					a, b = b, a
				}
				if len(a) > 0 && len(a)%36 == 0 && len(b) > 191 && strings.HasPrefix(b, a) {
					return "fragment-dir-collision"
				}
			}
			return keyClass(k)
		}
		for _, h := range r.SHists {
			if h.Ret == 0 {
				continue
			}
			if h.Skipped {
				continue
			}
			switch h.Op.Kind {
			case "set", "set-mutate", "set-same":
				j.count("C14", "set-failed")
				if !h.OK {
					vfail("C14", "set-failed", collide(h.Key), h, "Set of key %q (len %d) failed on a fault-free backend: %s", clip(h.Key), len(h.Key), h.Err)
					continue
				}
				model[h.Key], ids[h.Key] = h.Val, h.ValID
			case "get", "get-mutate", "api-get":
				j.count("C14", "get-differs")
				want, ok := model[h.Key]
				switch {
				case ok && !h.OK:
					vfail("C14", "get-differs", collide(h.Key)+"+lost", h, "Get of key %q (len %d): want value %s, got error %q (api=%v)", clip(h.Key), len(h.Key), ids[h.Key], h.Err, h.API)
				case ok && !bytes.Equal(h.Got, want):
					sig := "bytes"
					if h.Op.Kind != "api-get" && svalID(h.Got) == "" {
						sig = "mutated-or-torn"
					} else if h.GotID != ids[h.Key] {
						sig = "other-value"
					}
					vfail("C14", "get-differs", sig, h, "Get of key %q: want value %s (%d bytes), got %d bytes id=%q (api=%v)", clip(h.Key), ids[h.Key], len(want), len(h.Got), h.GotID, h.API)
				case !ok && h.OK:
					vfail("C14", "get-differs", "phantom:"+collide(h.Key), h, "Get of absent key %q returned %d bytes (id=%q)", clip(h.Key), len(h.Got), h.GotID)
				case !ok && !h.NotEx:
					vfail("C14", "get-differs", "absent-error-kind:"+collide(h.Key), h, "Get of absent key %q returned an error that is not ErrNotExist: %s", clip(h.Key), h.Err)
				}
			case "delete", "api-delete":
				j.count("C14", "delete-differs")
				_, ok := model[h.Key]
				switch {
				case ok && !h.OK:
					vfail("C14", "delete-differs", "failed:"+collide(h.Key), h, "Delete of live key %q failed: %s", clip(h.Key), h.Err)
				case !ok && h.OK:
					vfail("C14", "delete-differs", "phantom:"+collide(h.Key), h, "Delete of absent key %q succeeded", clip(h.Key))
				case !ok && !h.NotEx:
					vfail("C14", "delete-differs", "absent-error-kind:"+collide(h.Key), h, "Delete of absent key %q returned an error that is not ErrNotExist: %s", clip(h.Key), h.Err)
				}
				if h.OK {
					delete(model, h.Key)
				}
			case "keys", "api-list":
				if h.Err == "unsupported" {
					continue
				}
				j.count("C14", "keys-differs")
				var want []string
				for k := range model {
					if strings.HasPrefix(k, h.Key) {
						want = append(want, k)
					}
				}
				if h.API {
					// JSON cannot carry bytes that are not UTF-8: compare modulo that encoding
					b, _ := json.Marshal(want)
					_ = json.Unmarshal(b, &want)
				}
				sort.Strings(want)
				if !h.OK {
					vfail("C14", "keys-differs", "error", h, "listing keys with prefix %q failed: %s", clip(h.Key), h.Err)
				} else if !equalStrings(want, h.Keys) {
					vfail("C14", "keys-differs", "", h, "listing keys with prefix %q: want %d keys %v, got %d keys %v", clip(h.Key), len(want), clipAll(want), len(h.Keys), clipAll(h.Keys))
				}
			case "reopen":
				j.count("C14", "reopen-failed")
				if !h.OK && r.Scn.Backend != "mem" {
					vfail("C14", "reopen-failed", "", h, "reopening the backend failed: %s", h.Err)
				}
			}
		}
	}
	// ---- C14: concurrent clients on disjoint keys: each key's operations are one sequence ----
	if r.Scn.Disjoint && !firedPrefix(r.Faults, "disk.") {
		model := map[string][]byte{}
		ids := map[string]string{}
		for _, h := range r.SHists {
			if h.Phase != 0 || h.Ret == 0 {
				continue
			}
			switch h.Op.Kind {
			case "set", "set-mutate":
				j.count("C14", "disjoint")
				if !h.OK {
					vfail("C14", "set-failed", "concurrent-disjoint", h, "Set of key %q failed on a fault-free backend while other clients worked on other keys: %s", clip(h.Key), h.Err)
					delete(model, h.Key)
					continue
				}
				model[h.Key], ids[h.Key] = h.Val, h.ValID
			case "get", "get-mutate":
				j.count("C14", "disjoint")
				want, ok := model[h.Key]
				switch {
				case ok && !h.OK:
					vfail("C14", "get-differs", "concurrent-disjoint+lost", h, "Get of key %q, which only this client touches: want value %s, got error %q", clip(h.Key), ids[h.Key], h.Err)
				case ok && !bytes.Equal(h.Got, want):
					vfail("C14", "get-differs", "concurrent-disjoint+other", h, "Get of key %q, which only this client touches: want value %s (%d bytes), got %d bytes id=%q", clip(h.Key), ids[h.Key], len(want), len(h.Got), h.GotID)
				case !ok && h.OK:
					vfail("C14", "get-differs", "concurrent-disjoint+phantom", h, "Get of absent key %q, which only this client touches, returned %d bytes (id=%q)", clip(h.Key), len(h.Got), h.GotID)
				}
			case "delete":
				if h.OK || h.NotEx {
					delete(model, h.Key)
				}
			}
		}
	}
	// ---- C14: the reopened directory answers as one map (phase 2 is a single sequential client) ----
	if r.Scn.Backend != "mem" && len(r.Scn.Phase2) == 1 && !sequential {
		judgeRecovered(r, j, vfail)
	}
	// ---- C15: torn reads and linearizability (all runs) ----
	setIDs := map[string]map[string]bool{}
	for _, h := range r.SHists {
		if h.ValID != "" {
			if setIDs[h.Key] == nil {
				setIDs[h.Key] = map[string]bool{}
			}
			setIDs[h.Key][h.ValID] = true
		}
	}
	conc := !sequential
	for _, h := range r.SHists {
		if (h.Op.Kind == "get" || h.Op.Kind == "get-mutate") && h.OK && h.Ret != 0 && r.Scn.Backend != "mem" {
			j.count("C15", "torn-read")
			if h.GotID == "" || !setIDs[h.Key][h.GotID] {
				sig := "sequential"
				if conc {
					sig = "concurrent"
				}
				if r.Crashes > 0 {
					sig = "after-kill"
				} else if firedPrefix(r.Faults, "disk.") {
					sig = "after-write-failure"
				} else if r.Faults["store.op-timeout"] > 0 {
					sig = "after-timeout"
				}
				vfail("C15", "torn-read", sig, h, "Get of key %q returned %d bytes that are not a complete value ever passed to Set for that key (head %q)", clip(h.Key), len(h.Got), clip(string(h.Got)))
			}
		}
	}
	// a Get answers with a value or with the not-exist report: without any fault, wrong key or modification at
	// rest nothing else can be the matter, whatever other clients do to the key meanwhile
	undisturbed := !firedPrefix(r.Faults, "disk.") && !firedPrefix(r.Faults, "config.") && r.Faults["store.op-timeout"] == 0 && r.Crashes == 0
	for _, h := range r.SHists {
		if (h.Op.Kind == "get" || h.Op.Kind == "get-mutate") && h.Ret != 0 && undisturbed && !h.API {
			j.count("C15", "get-error")
			if !h.OK && !h.NotEx {
				sig := "sequential"
				if conc {
					sig = "concurrent"
				}
				vfail("C15", "get-error", sig, h, "Get of key %q returned neither a value nor the not-exist report, on a backend without any fault: %s", clip(h.Key), h.Err)
			}
		}
	}
	// "Delete removes only that key": a key nobody deletes does not disappear. Operation timeouts are allowed here
	// (a Set that gave up may or may not take effect - it never takes an acknowledged value away); kills, disk
	// faults and modification at rest are not.
	if !firedPrefix(r.Faults, "disk.") && !firedPrefix(r.Faults, "config.") && r.Crashes == 0 {
		plain := true
		deleted := map[string]bool{}
		for _, h := range r.SHists {
			switch h.Op.Kind {
			case "set", "set-mutate", "set-same", "get", "get-mutate", "keys", "reopen", "api-get", "api-list":
			case "delete", "api-delete":
				deleted[h.Key] = true
			default:
				plain = false
			}
		}
		for _, h := range r.SHists {
			if !plain || (h.Op.Kind != "get" && h.Op.Kind != "get-mutate") || h.Ret == 0 || h.API || deleted[h.Key] {
				continue
			}
			j.count("C14", "key-vanished")
			if !h.NotEx {
				continue
			}
			for _, w := range r.SHists {
				if w.Key == h.Key && strings.HasPrefix(w.Op.Kind, "set") && w.OK && w.Ret != 0 && w.Ret < h.Inv {
					sig := "sequential"
					if r.Faults["store.op-timeout"] > 0 {
						sig = "after-timeout"
					} else if conc {
						sig = "concurrent"
					}
					vfail("C14", "key-vanished", sig, h, "Get of key %q reports not-exist although a Set of it had succeeded before (seq %d) and nothing ever deleted it", clip(h.Key), w.Ret)
					break
				}
			}
		}
	}
	if r.Scn.Backend != "mem" || conc {
		judgeLinearizable(r, j, vfail)
	}
	// ---- C17: tampering, wrong key, unusable key, ciphertext freshness ----
	if r.Scn.Backend == "fsenc" {
		tampered, wrongKey := map[string]string{}, false
		var lastSet *SHist
		for _, h := range r.SHists {
			if h.Ret == 0 {
				continue
			}
			switch h.Op.Kind {
			case "set", "set-mutate", "set-same":
				if h.OK {
					delete(tampered, h.Key)
				}
				if lastSet != nil && lastSet.Key == h.Key && h.OK && lastSet.OK && bytes.Equal(lastSet.Val, h.Val) && h.File != nil && lastSet.File != nil &&
					lastSet.Ret < h.Inv && !otherWriterDuring(r, lastSet, h) {
					j.count("C17", "deterministic-ciphertext")
					if bytes.Equal(lastSet.File, h.File) {
						vfail("C17", "deterministic-ciphertext", "", h, "two Sets of the same %d-byte value produced identical file contents", len(h.Val))
					}
				}
				lastSet = h
			case "corrupt":
				if h.OK {
					tampered[h.Key] = h.Op.Mode
				}
			case "sweep":
				j.Judgements["C17/tamper-accepted"] += h.SweepN
				if h.OK {
					vfail("C17", "tamper-accepted", "large-"+h.Op.Mode, h, "Get returned %d bytes from a %s file: %s at byte %d", len(h.Got), map[string]string{"trunc": "truncated", "splice": "spliced"}[h.Op.Mode], h.Op.Mode, h.Status)
				}
			case "rekey":
				wrongKey = h.OK
			case "open-badkey":
				j.count("C17", "plaintext-fallback")
				if h.OK {
					vfail("C17", "plaintext-fallback", fmt.Sprint(h.Op.Arg%badKeyVariants), h, "opening the backend with encryption requested but no usable key (variant %d) succeeded instead of failing", h.Op.Arg%badKeyVariants)
				}
			case "get", "get-mutate":
				if mode, ok := tampered[h.Key]; ok {
					j.count("C17", "tamper-accepted")
					if h.OK {
						vfail("C17", "tamper-accepted", mode, h, "Get returned %d bytes (id=%q) from a file that had been modified at rest (%s at %d)", len(h.Got), h.GotID, mode, 0)
					}
				}
				if wrongKey {
					j.count("C17", "wrong-key-yields-data")
					if h.OK {
						vfail("C17", "wrong-key-yields-data", "", h, "Get with a different encryption key returned %d bytes", len(h.Got))
					}
				}
			}
		}
	}
	if r.Scn.Backend == "fsenc" {
		if a, b, n := r.cipherTwins(); n >= 2 {
			j.count("C17", "deterministic-ciphertext")
			if a != "" {
				vfail("C17", "deterministic-ciphertext", "files", nil, "two files written by the encrypting backend, %s and %s, received byte-identical contents", a, b)
			}
		}
	}
	// ---- C17: plaintext on disk ----
	if r.plainWatch {
		j.count("C17", "plaintext-on-disk")
		if len(r.PlainHits) > 0 {
			vfail("C17", "plaintext-on-disk", "", nil, "a file written by the encrypted backend contains plaintext of a stored value: %s", r.PlainHits[0])
		}
	}
	return j
}

// judgeRecovered checks the second phase of a store-level run (after the first phase's clients finished or
// were killed, the directory was opened again and one client works alone) for self-consistency: whatever
// the first phase left behind, from now on the answers must be those of one map - a listing contains the
// keys the client knows to be present, none it knows to be absent, nothing that was never a key, and it
// does not fail; a key just written is read back; a key just deleted is gone. No fault is injected in
// this phase.
func judgeRecovered(r *Run, j *Judged, vfail func(prop, rule, sig string, h *SHist, format string, a ...any)) {
	for _, h := range r.SHists {
		switch h.Op.Kind {
		case "corrupt", "rekey", "open-badkey":
			return
		}
	}
	if r.faultInPhase2 {
		return
	}
	if r.Scn.FsTimeoutNs > 0 {
		// a backend operation timeout shorter than the scheduler's stalls (profile atomic only): operations of
		// the first phase that gave up may still land during the second, and its own calls may give up - the
		// premise "one sequential client on a quiet directory" does not hold
		return
	}
	table := map[string]bool{}
	for _, k := range r.allKeys() {
		table[k] = true
	}
	known := map[string]int{} // 1 present, -1 absent, 0 unknown
	vals := map[string][]byte{}
	after := "reopen"
	if r.Crashes > 0 {
		after = "kill"
	} else if len(r.Scn.DiskFaults) > 0 {
		after = "disk-error"
	}
	for _, h := range r.SHists {
		if h.Phase != 1 || h.Ret == 0 || h.Skipped {
			continue
		}
		switch h.Op.Kind {
		case "get":
			j.count("C14", "recovered")
			switch {
			case known[h.Key] == 1 && !h.OK:
				vfail("C14", "get-differs", "recovered+lost:"+after, h, "after %s: Get of key %q (len %d), present a moment ago, failed: %s", after, clip(h.Key), len(h.Key), h.Err)
			case known[h.Key] == 1 && vals[h.Key] != nil && !bytes.Equal(vals[h.Key], h.Got):
				vfail("C14", "get-differs", "recovered+other:"+after, h, "after %s: Get of key %q returned %d bytes (id=%q), not the value read or written a moment ago", after, clip(h.Key), len(h.Got), h.GotID)
			case known[h.Key] == -1 && h.OK:
				vfail("C14", "get-differs", "recovered+phantom:"+after, h, "after %s: Get of key %q, absent a moment ago, returned %d bytes", after, clip(h.Key), len(h.Got))
			}
			switch {
			case h.OK:
				known[h.Key], vals[h.Key] = 1, h.Got
			case h.NotEx:
				known[h.Key] = -1
				delete(vals, h.Key)
			default:
				known[h.Key] = 0 // unreadable (for example cut short by the kill under encryption)
				delete(vals, h.Key)
			}
		case "set":
			if h.OK {
				known[h.Key], vals[h.Key] = 1, h.Val
			} else {
				j.count("C14", "recovered")
				vfail("C14", "set-failed", "recovered:"+after, h, "after %s: Set of key %q (len %d) failed without any fault: %s", after, clip(h.Key), len(h.Key), h.Err)
				known[h.Key] = 0
				delete(vals, h.Key)
			}
		case "delete":
			j.count("C14", "recovered")
			switch {
			case known[h.Key] == 1 && !h.OK:
				vfail("C14", "delete-differs", "recovered+failed:"+after, h, "after %s: Delete of present key %q failed: %s", after, clip(h.Key), h.Err)
			case known[h.Key] == -1 && h.OK:
				vfail("C14", "delete-differs", "recovered+phantom:"+after, h, "after %s: Delete of absent key %q succeeded", after, clip(h.Key))
			}
			if h.OK || h.NotEx {
				known[h.Key] = -1
				delete(vals, h.Key)
			} else {
				known[h.Key] = 0
			}
		case "keys":
			if h.Err == "unsupported" {
				continue
			}
			j.count("C14", "recovered")
			if !h.OK {
				vfail("C14", "keys-differs", "recovered+error:"+after, h, "after %s: listing keys with prefix %q failed: %s", after, clip(h.Key), h.Err)
				continue
			}
			listed := map[string]bool{}
			for _, k := range h.Keys {
				listed[k] = true
				if !table[k] {
					vfail("C14", "keys-differs", "recovered+never-a-key:"+after, h, "after %s: listing returned %q, which was never a key", after, clip(k))
				} else if !strings.HasPrefix(k, h.Key) {
					vfail("C14", "keys-differs", "recovered+prefix:"+after, h, "after %s: listing with prefix %q returned %q", after, clip(h.Key), clip(k))
				} else if known[k] == -1 {
					vfail("C14", "keys-differs", "recovered+phantom:"+after, h, "after %s: listing returned key %q, which Get/Delete just reported absent", after, clip(k))
				}
			}
			for k, st := range known {
				if st == 1 && strings.HasPrefix(k, h.Key) && !listed[k] {
					vfail("C14", "keys-differs", "recovered+missing:"+after, h, "after %s: listing with prefix %q lacks key %q, which Get just returned", after, clip(h.Key), clip(k))
				}
			}
		case "reopen":
			if !h.OK {
				vfail("C14", "reopen-failed", "recovered:"+after, h, "after %s: reopening the backend failed: %s", after, h.Err)
			}
		}
	}
}

// otherWriterDuring: some other write or delete of the same key overlapped the span from a's invocation to
// b's return, so the file snapshots taken after a and b need not be the files a and b wrote.
func otherWriterDuring(r *Run, a, b *SHist) bool {
	for _, h := range r.SHists {
		if h == a || h == b || h.Key != a.Key {
			continue
		}
		switch h.Op.Kind {
		case "set", "set-mutate", "set-same", "delete", "api-delete", "corrupt":
		default:
			continue
		}
		if (h.Ret == 0 || h.Ret > a.Inv) && h.Inv < b.Ret {
			return true
		}
	}
	return false
}

func firedPrefix(m map[string]int, p string) bool {
	for k := range m {
		if strings.HasPrefix(k, p) && k != "disk.short-read" {
			return true
		}
	}
	return false
}

func clip(s string) string {
	if len(s) > 40 {
		return fmt.Sprintf("%s…(%d bytes)", s[:40], len(s))
	}
	return s
}

func clipAll(ss []string) []string {
	out := make([]string, 0, len(ss))
	for _, s := range ss {
		out = append(out, clip(s))
	}
	return out
}

func equalStrings(a, b []string) bool {
	if len(a) != len(b) {
		return false
	}
	for i := range a {
		if a[i] != b[i] {
			return false
		}
	}
	return true
}

// ---- linearizability of per-key histories (porcupine) ----

type regIn struct {
	kind string // set get delete
	id   string
}
type regOut struct {
	ok, notex, failed, never bool
	id                       string
}

const absent = "\x00absent"
const emptyFile = "\x00empty" // a Set that was cut may leave an empty or partial file: reads of it are judged by torn-read

var regModel = porcupine.NondeterministicModel{
	Init: func() []interface{} { return []interface{}{absent} },
	Step: func(state, input, output interface{}) []interface{} {
		st := state.(string)
		in, out := input.(regIn), output.(regOut)
		switch in.kind {
		case "set":
			if out.ok {
				return []interface{}{in.id}
			}
			// failed or never returned: applied, not applied, removed, or left in a torn state
			return []interface{}{st, in.id, absent, emptyFile}
		case "get":
			switch {
			case out.failed, out.never:
				return []interface{}{st}
			case out.notex:
				if st == absent {
					return []interface{}{st}
				}
				return nil
			case out.id == "":
				// torn bytes: reported by torn-read; does not constrain the order
				return []interface{}{st}
			default:
				if st == out.id {
					return []interface{}{st}
				}
				return nil
			}
		case "delete":
			switch {
			case out.ok:
				if st == absent {
					return nil
				}
				return []interface{}{absent}
			case out.notex:
				if st == absent {
					return []interface{}{st}
				}
				return nil
			default:
				return []interface{}{st, absent}
			}
		}
		return []interface{}{st}
	},
	Equal: func(a, b interface{}) bool { return a == b },
}

func judgeLinearizable(r *Run, j *Judged, vfail func(prop, rule, sig string, h *SHist, format string, a ...any)) {
	byKey := map[string][]*SHist{}
	var maxSeq uint64
	for _, h := range r.SHists {
		switch h.Op.Kind {
		case "set", "set-mutate", "set-same", "get", "get-mutate", "delete":
			byKey[h.Key] = append(byKey[h.Key], h)
		}
		maxSeq = max(maxSeq, h.Inv, h.Ret)
	}
	keys := make([]string, 0, len(byKey))
	for k := range byKey {
		keys = append(keys, k)
	}
	sort.Strings(keys)
	model := regModel.ToModel()
	clientIDs := map[string]int{}
	for _, k := range keys {
		hs := byKey[k]
		if len(hs) > 24 {
			hs = hs[:24]
		}
		var ops []porcupine.Operation
		for _, h := range hs {
			if h.Inv == 0 {
				continue
			}
			cid, ok := clientIDs[h.Client]
			if !ok {
				cid = len(clientIDs)
				clientIDs[h.Client] = cid
			}
			in := regIn{kind: strings.TrimSuffix(strings.TrimSuffix(h.Op.Kind, "-mutate"), "-same"), id: h.ValID}
			out := regOut{ok: h.OK, notex: h.NotEx, failed: !h.OK && !h.NotEx, id: h.GotID, never: h.Ret == 0}
			if in.kind == "get" && h.OK && (h.GotID == "") {
				out.id = ""
			}
			retSeq := h.Ret
			if h.TimedOut && in.kind != "get" {
				// the call gave up, the operation did not: it may take effect at any later time
				retSeq = 0
			}
			if retSeq == 0 {
				retSeq = maxSeq + 1 + uint64(len(ops))
				out.ok, out.notex, out.failed = false, false, true
			}
			ops = append(ops, porcupine.Operation{ClientId: cid, Input: in, Call: int64(h.Inv), Output: out, Return: int64(retSeq)})
		}
		if len(ops) < 2 {
			continue
		}
		j.count("C15", "not-linearizable")
		res := porcupine.CheckOperationsTimeout(model, ops, 20*time.Second)
		switch res {
		case porcupine.Illegal:
			var desc []string
			for _, h := range hs {
				desc = append(desc, fmt.Sprintf("%s:%s[%d,%d]->ok=%v notex=%v id=%s%s", h.Client, h.Op.Kind, h.Inv, h.Ret, h.OK, h.NotEx, h.GotID, h.ValID))
			}
			sig := "concurrent"
			if r.Crashes > 0 {
				sig = "after-kill"
			} else if firedPrefix(r.Faults, "disk.") {
				sig = "after-write-failure"
			} else if r.Faults["store.op-timeout"] > 0 {
				sig = "after-timeout"
			} else if len(r.Scn.SClients) == 1 {
				sig = "sequential"
			}
			vfail("C15", "not-linearizable", sig, hs[len(hs)-1], "history of key %q is not linearisable as a register: %s", clip(k), strings.Join(desc, "; "))
		case porcupine.Unknown:
			r.Inconclusive++
		}
	}
}
