package engine

import "testing"

func RunSsim(scn *Scenario) *Run { return newRun(scn) }

func JudgeSsim(r *Run) *Judged { return &Judged{Judgements: map[string]int{}} }

func enumMode(t *testing.T, job *Job) {}
