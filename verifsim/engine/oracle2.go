package engine

import (
	"bytes"
	"encoding/json"
	"fmt"
	"net/http"
	"net/url"
	"reflect"
	"sort"
	"strings"
)

// ---------------- C07 (safety) ----------------

// namedResources resolves Location / Content-Location of an unsafe exchange's
// response into resources of the scenario, split into same-origin and
// cross-origin relative to the request target.
func (r *Run) namedResources(e *Exch) (same, cross []int) {
	if e.Header == nil {
		return
	}
	base, err := url.Parse(e.Req.URL)
	if err != nil {
		return
	}
	self := e.Op.Res % len(r.Scn.Resources)
	for _, hn := range []string{"Location", "Content-Location"} {
		v := e.Header.Get(hn)
		if v == "" {
			continue
		}
		u, err := url.Parse(v)
		if err != nil {
			continue
		}
		u = base.ResolveReference(u)
		t := identifyResource(u)
		if t < 0 || t >= len(r.Scn.Resources) {
			continue
		}
		if r.Scn.Resources[t].Host == r.Scn.Resources[self].Host {
			same = append(same, t)
		} else {
			cross = append(cross, t)
		}
	}
	return
}

func (r *Run) entrySetSeq(sid int) uint64 {
	for _, s := range r.Store {
		if s.Kind == "set" && s.Applied && !s.IsIndex {
			for _, x := range s.SIDs {
				if x == sid {
					return s.SeqRet
				}
			}
		}
	}
	return 0
}

// listedWhen: did the variant index, as last written before sequence point seq, name the entry that holds
// the response sid?
func (r *Run) listedWhen(sid int, seq uint64) bool {
	key := ""
	for _, s := range r.Store {
		if s.Kind == "set" && s.Applied && !s.IsIndex && s.SeqRet < seq {
			for _, x := range s.SIDs {
				if x == sid {
					key = s.Key
				}
			}
		}
	}
	i := strings.LastIndex(key, "#")
	if i < 0 {
		return false
	}
	var last *StoreOp
	for _, s := range r.Store {
		if (s.Kind == "set" || s.Kind == "delete") && s.Applied && s.Key == key[:i] && s.SeqRet != 0 && s.SeqRet < seq {
			last = s
		}
	}
	return last != nil && last.Kind == "set" && bytes.Contains(last.Val, []byte(jsonEsc(key)))
}

func judgeInvalidation(r *Run, j *Judged, cl []*cls) {
	for _, cu := range cl {
		u := cu.e
		if safeMethods[u.Req.Method] || !u.Returned || u.Err != "" || u.Status < 200 || u.Status >= 400 || u.Panic != "" {
			continue
		}
		if cu.reply == nil && !cu.synth {
			continue
		}
		deleteFailed := false
		for _, s := range u.Store {
			if s.Kind == "delete" && s.Fault != "" && s.IsIndex {
				// an index the store refuses to delete keeps its entries reachable: nothing the cache can do.
				// (A refused delete of one entry is different: deleting the index still makes it unreachable.)
				deleteFailed = true
			}
		}
		if deleteFailed {
			continue
		}
		targets := map[int]bool{u.Op.Res % len(r.Scn.Resources): true}
		same, _ := r.namedResources(u)
		for _, t := range same {
			targets[t] = true
		}
		for _, cx := range cl {
			x := cx.e
			if x.SeqInv <= u.SeqRet || !cx.stored || cx.B == nil || cx.fg304 != nil || !x.Returned {
				continue
			}
			if !targets[cx.B.Res] {
				continue
			}
			j.count("C07", "served-after-invalidation")
			setSeq := r.entrySetSeq(cx.B.SID)
			if setSeq == 0 || setSeq >= u.SeqInv {
				continue // stored concurrently with / after the unsafe request
			}
			if cx.H != nil && cx.H.Call != nil && cx.H.Call.SeqStart >= u.SeqInv {
				// validated by a 304 to a request that reached the origin while / after it handled the unsafe one.
				// (A 304 speaks about the resource as it was when its request arrived: one asked for before the
				// unsafe request and delivered after it confirms nothing about the state the unsafe request left.)
				continue
			}
			// "stored earlier" means: the exchange that stored B had finished all its store writes (entry and
			// index) before the unsafe request began, and no validation of the resource was still at work while
			// the unsafe request was handled. Entry, index and invalidation are separate store operations; a
			// storing or freshening exchange that overlaps the unsafe one can land its writes after the
			// invalidation looked. The statement speaks of request sequences, not of such overlaps: not judged.
			if cx.B.Call != nil && r.lastSeqOfLineage(cx.B.Call) >= u.SeqInv {
				continue
			}
			// (a validation in flight across the unsafe request that is answered 304 is no such overlap: once the
			// invalidation has removed the entry from the index there is nothing for the 304 to freshen, and
			// writing the old response back would undo the invalidation)
			overlapping := false
			for _, o := range r.Calls {
				if o.Res == cx.B.Res && safeMethods[o.Req.Method] && o.SeqStart < u.SeqRet && r.lastSeqOfLineage(o) > u.SeqInv {
					if o.Resp != nil && !o.Resp.Is304 && o.Ended && o != cx.B.Call && r.listedWhen(cx.B.SID, u.SeqInv) {
						// a full reply in flight across the unsafe request stores *its own* response (and may write an
						// index that still lists B's record): it cannot bring B's entry back, which the
						// invalidation has deleted - B served afterwards has survived the invalidation. (Only where
						// the index named B's entry when the unsafe request began: an entry that an earlier lost
						// update of the index had already made unreachable is not the invalidation's to find.)
						continue
					}
					if o.Resp != nil && o.Resp.Is304 && !o.Resp.Bare && o.Ended && o.Resp.SeqResp > u.SeqRet {
						// ... unless somebody has stored a response for the URI again before the 304 arrived: the
						// new entry may have the key of the old one, and the late write-back landing on it is the
						// lost-update race between two storing exchanges, not a matter of invalidation
						again := false
						for _, o2 := range r.Calls {
							// (whenever it began: what matters is that its store writes fall between the invalidation
							// and the end of the 304's write-back)
							if o2 != o && o2.Res == cx.B.Res && safeMethods[o2.Req.Method] && o2.Resp != nil && !o2.Resp.Is304 &&
								r.lastSeqOfLineage(o2) > u.SeqInv && o2.Resp.SeqResp < r.lastSeqOfLineage(o) {
								again = true
							}
							if o2 != o && o2.Res == cx.B.Res && safeMethods[o2.Req.Method] && o2.Resp == nil && o2.SeqStart < r.lastSeqOfLineage(o) && (!o2.Ended || o2.SeqEnd > u.SeqInv) {
								again = true // still in flight or failed in between: what it wrote is not known from its reply
							}
						}
						if !again {
							continue
						}
					}
					overlapping = true
				}
			}
			if overlapping {
				continue
			}
			sig := "method=" + methodClass(u.Req.Method)
			if cx.B.Res != u.Op.Res%len(r.Scn.Resources) {
				sig = "location"
			} else if x.Op.Spelling != u.Op.Spelling || !sameSpelling(r, cx.B, u) {
				sig += "+spelling"
			}
			j.fail("C07", "served-after-invalidation", x, sig, "stored response sid=%d for resource %d returned without validation after %s %s returned %d (seq %d); it had been stored before that request", cx.B.SID, cx.B.Res, u.Req.Method, u.Req.URL, u.Status, u.SeqRet)
		}
	}
}

func sameSpelling(r *Run, b *OResp, u *Exch) bool { return b.Req.URL == u.Req.URL }

func methodClass(m string) string {
	switch m {
	case "POST", "PUT", "DELETE", "PATCH":
		return "common"
	case "PROPPATCH", "MKCOL", "COPY", "MOVE", "LOCK", "UNLOCK", "MKCALENDAR", "ACL", "BIND", "UNBIND", "REBIND", "LINK", "UNLINK", "MERGE", "UPDATE", "CHECKIN", "CHECKOUT":
		return "webdav"
	}
	return "unknown-token"
}

// ---------------- expected hits: C09, C08 (freshen-lost, variant-lost), C07 (cross-origin-evicted) ----------------

var sureStatus = map[int]bool{200: true, 203: true, 301: true, 308: true, 404: true, 405: true, 410: true, 414: true, 501: true}

// storableForSure: the narrow class every build of this cache must store.
func storableForSure(o *OResp) bool {
	if o.Is304 || o.Req.Method != "GET" || o.Req.Header.Get("Range") != "" || !sureStatus[o.Status] || !o.Complete || !o.Delivered {
		return false
	}
	if o.Req.Header.Get("If-None-Match") != "" || o.Req.Header.Get("If-Modified-Since") != "" {
		// a full reply to a conditional request is storable too, but keep client-made conditionals out
	}
	rcc, scc := parseCC(o.Req.Header), parseCC(o.Header)
	if rcc.has("no-store") || scc.has("no-store") || scc.has("no-cache") || scc.has("private") || scc.has("must-understand") {
		return false
	}
	if _, star := varyFields(o.Header); star {
		return false
	}
	if lo, _, p, valid := scc.delta("max-age"); p {
		return valid && lo > 0
	}
	if ev := o.Header.Values("Expires"); len(ev) == 1 {
		exp, ok1 := parseDate(ev[0])
		d, ok2 := parseDate(o.Header.Get("Date"))
		return ok1 && ok2 && exp.After(d)
	}
	return false
}

func (r *Run) wasStored(o *OResp) bool {
	var entry *StoreOp
	for _, s := range r.Store {
		if s.Kind != "set" || !s.Applied {
			continue
		}
		if entry == nil {
			if !s.IsIndex && bodySIDIn(s.Val) == o.SID {
				entry = s
			}
			continue
		}
		if s.IsIndex && s.Gor == entry.Gor && bytes.Contains(s.Val, []byte(jsonEsc(entry.Key))) {
			return true
		}
	}
	return false
}

// jsonEsc: s as encoding/json writes it inside a string (with its default escaping of <, >, & and of the
// line separators), without the quotes.
func jsonEsc(s string) string {
	b, err := json.Marshal(s)
	if err != nil || len(b) < 2 {
		return s
	}
	return string(b[1 : len(b)-1])
}

func bodySIDIn(v []byte) int { return firstBodyOrSeq(v) }

func (r *Run) varyStable(res int) (string, bool) {
	ps := r.Scn.Resources[res].Plans
	v := ps[0].Vary
	for _, p := range ps {
		if p.Vary != v {
			return "", false
		}
	}
	return v, !strings.Contains(v, "*")
}

func classKey(vary string, h http.Header) string {
	var b strings.Builder
	hh := http.Header{"Vary": {vary}}
	fs, _ := varyFields(hh)
	for _, f := range fs {
		b.WriteString(f + "=" + meaningOf(f, h.Values(f)) + ";")
	}
	return b.String()
}

func (r *Run) faultFree() bool {
	return len(r.Faults) == 0 || onlyNetFaults(r.Faults)
}

func onlyNetFaults(m map[string]int) bool {
	for k := range m {
		if !strings.HasPrefix(k, "net.") && k != "disk.short-read" {
			return false
		}
	}
	return true
}

// lastSeqOfLineage: sequence number of the last store operation performed by
// the goroutine lineage that made call u (background work is finished then).
func (r *Run) lastSeqOfLineage(u *UpCall) uint64 {
	if r.judging {
		if v, ok := r.lineageEnd[u]; ok {
			return v
		}
		v := r.lastSeqOfLineage0(u)
		r.lineageEnd[u] = v
		return v
	}
	return r.lastSeqOfLineage0(u)
}

func (r *Run) lastSeqOfLineage0(u *UpCall) uint64 {
	if u.Fg {
		// a foreground call's work ends when its exchange returns
		if e := r.exchFor(u.Owner, u.OwnerOp); e != nil && e.SeqRet != 0 {
			return e.SeqRet
		}
		return ^uint64(0)
	}
	last := u.SeqEnd
	for _, s := range r.Store {
		if strings.HasPrefix(s.Gor, u.Gor) && s.SeqRet > last {
			last = s.SeqRet
		}
		if strings.HasPrefix(s.Gor, u.Gor) && s.SeqRet == 0 && s.Seq > last {
			last = ^uint64(0) // store operation never returned
		}
	}
	return last
}

// oneTransientReadFault: the only fault of the run is a single Get of the store that failed with an error (no
// bytes changed, no write refused), one client, nothing in the background. Whichever read it was - the index
// when the request came in, the entry, the index again after the origin answered - the exchange it hit may
// go to the origin for it, but what is stored for other variants is not touched.
func (r *Run) oneTransientReadFault() *StoreOp {
	n := 0
	for k, v := range r.Faults {
		switch {
		case strings.HasPrefix(k, "net.") || k == "disk.short-read":
		case k == "store.get.err" || k == "store.get.timeout":
			n += v
		default:
			return nil
		}
	}
	if n != 1 || len(r.Scn.Clients) != 1 {
		return nil
	}
	for _, u := range r.Calls {
		if !u.Fg {
			return nil
		}
	}
	for _, s := range r.Store {
		if s.Fault != "" {
			return s
		}
	}
	return nil
}

func judgeExpectedHits(r *Run, j *Judged, cl []*cls, by map[int]*OResp) {
	var faulted *StoreOp
	if !r.faultFree() {
		if faulted = r.oneTransientReadFault(); faulted == nil {
			return
		}
	}
	if r.Crashes > 0 || r.Sim.Hung {
		return
	}
	for xi, cx := range cl {
		x := cx.e
		if !x.Returned || cx.method != "GET" || x.Req.Header.Get("Range") != "" || x.Err != "" || x.Panic != "" {
			continue
		}
		if faulted != nil && faulted.Seq > x.SeqInv && faulted.Seq < x.SeqRet {
			continue // the exchange whose own read failed
		}
		if x.Req.Header.Get("If-None-Match") != "" || x.Req.Header.Get("If-Modified-Since") != "" {
			continue
		}
		if cx.reqCC.has("no-cache") || cx.reqCC.has("no-store") || cx.reqCC.has("max-age") || cx.reqCC.has("min-fresh") {
			continue
		}
		res := x.Op.Res % len(r.Scn.Resources)
		vary, stable := r.varyStable(res)
		if !stable {
			continue
		}
		K := classKey(vary, x.Req.Header)
		// quiet window: nothing else in flight on this resource
		quiet := true
		for yi, cy := range cl {
			y := cy.e
			if yi == xi || y.Op.Res%len(r.Scn.Resources) != res {
				continue
			}
			if y.SeqInv < x.SeqRet && (y.SeqRet == 0 || y.SeqRet > x.SeqInv) {
				quiet = false
			}
		}
		for _, u := range r.Calls {
			if u.Fg || u.Res != res || u.SeqStart > x.SeqRet {
				continue
			}
			if !u.Ended || r.lastSeqOfLineage(u) > x.SeqInv {
				quiet = false
			}
		}
		if !quiet {
			continue
		}
		// L: the most recent origin response for (resource, class)
		var L *OResp
		for _, o := range r.OResps {
			if o.Res != res || o.SeqResp >= x.SeqInv || o.Req.Method != "GET" {
				continue
			}
			if classKey(vary, o.Req.Header) != K {
				continue
			}
			if o.Is304 && noStoreExchange(o) {
				continue // leaves the store as it was
			}
			if L == nil || o.SeqResp > L.SeqResp {
				L = o
			}
		}
		if L == nil {
			continue
		}
		// L's own storing must not have raced with another exchange's store of the same resource
		// (the windows that matter are those in which each side processes its origin answer - from the answer
		// to its last store operation - not the time spent waiting for the origin)
		raced := false
		doneL := r.lastSeqOfLineage(L.Call)
		for _, o := range r.Calls {
			if o == L.Call || o.Res != res {
				continue
			}
			if !o.Ended {
				if o.SeqStart < doneL {
					raced = true
				}
				continue
			}
			if o.SeqEnd < doneL && r.lastSeqOfLineage(o) > L.SeqResp {
				raced = true
			}
		}
		if raced {
			continue
		}
		// effective stored header fields and the body they belong to
		hdr := L.Header.Clone()
		body := L
		if L.Is304 {
			// a 304 the cache itself asked for: freshens the response it validated
			le := r.exchFor(L.Call.Owner, L.Call.OwnerOp)
			if le == nil || le.Req.Header.Get("If-None-Match") != "" || le.Req.Header.Get("If-Modified-Since") != "" {
				continue
			}
			lc := (*cls)(nil)
			for _, c := range cl {
				if c.e == le {
					lc = c
				}
			}
			if lc == nil || !L.Call.Fg || lc.B == nil || !lc.stored || lc.fg304 == nil {
				continue
			}
			body = lc.B
			if !storableForSure(body) && !r.wasStored(body) {
				continue
			}
			if !r.chainExact(body, x) {
				continue // overlapping validations: which 304 the stored header fields come from is a race
			}
			hdr, _ = r.effectiveStored(body, x.SeqInv)
		} else if !storableForSure(L) && !r.wasStored(L) {
			continue
		}
		if _, ok := parseDate(hdr.Get("Date")); !ok {
			hdr.Set("Date", r.httpTime(L.TResp))
		}
		if r.clientConditionalSince(body, x.SeqInv) {
			continue
		}
		scc := parseCC(hdr)
		if scc.has("no-cache") || scc.has("no-store") {
			continue
		}
		if _, star := varyFields(hdr); star {
			continue
		}
		lLo, _, _ := lifetime(hdr, body.Status)
		_, aHi := currentAge(hdr.Values("Age"), hdr.Get("Date"), r.Sim.Epoch0, L.TStart, L.TResp, x.TInv, x.TRet)
		if aHi == inf || satAdd(aHi, sec) >= lLo {
			continue
		}
		// legitimate invalidation since L?
		invalidated, crossNamed := false, false
		for _, cu := range cl {
			u := cu.e
			if safeMethods[u.Req.Method] || u.SeqInv > x.SeqInv || (u.SeqRet != 0 && u.SeqRet < body.SeqResp) {
				continue
			}
			if u.Op.Res%len(r.Scn.Resources) == res {
				invalidated = true
			}
			same, cross := r.namedResources(u)
			for _, t := range same {
				if t == res {
					invalidated = true
				}
			}
			for _, t := range cross {
				if t == res {
					crossNamed = true
				}
			}
		}
		if invalidated {
			continue
		}
		// a validation for another variant of this URI answered with a full reply since L?
		otherVariantRefreshed := false
		for _, o := range r.OResps {
			if o.Res == res && o.SeqResp > L.SeqResp && o.SeqResp < x.SeqInv && !o.Is304 && classKey(vary, o.Req.Header) != K &&
				(o.Req.Header.Get("If-None-Match") != "" || o.Req.Header.Get("If-Modified-Since") != "") {
				otherVariantRefreshed = true
			}
		}
		prop, rule, sig := "C09", "expected-hit-missed", ""
		switch {
		case L.Is304:
			prop, rule = "C08", "freshen-lost"
		case otherVariantRefreshed:
			prop, rule = "C08", "variant-lost"
			for _, o := range r.OResps {
				if o.Res == res && o.SeqResp > L.SeqResp && o.SeqResp < x.SeqInv && !o.Call.Fg {
					sig = "background"
				}
			}
		case crossNamed:
			prop, rule = "C07", "cross-origin-evicted"
		}
		j.count(prop, rule)
		if prop == "C09" {
			r.probe("expected-hit-" + lifeSrcOf(hdr, body.Status))
			if x.Op.Spelling != 0 {
				r.probe("expected-hit-respelled")
			}
		}
		if len(cx.fg) > 0 || !cx.stored {
			if sig == "" && prop == "C09" {
				sig = lifeSrcOf(hdr, body.Status)
				if x.Req.URL != L.Req.URL {
					sig += "+spelling"
				}
				if r.Restarts > 0 {
					sig += "+restart"
				}
			}
			j.fail(prop, rule, x, sig, "expected a hit: latest origin response sid=%d for resource %d class %q is stored and fresh (age<=%s < lifetime>=%s, cc=%q) and nothing invalidated it, but the exchange made %d origin call(s) (status=%d, cache-status=%v)", L.SID, res, K, ns(aHi), ns(lLo), hdr.Get("Cache-Control"), len(cx.fg), x.Status, cx.status)
			if prop == "C08" && rule == "freshen-lost" {
				// a response freshened by a 304 is a stored, fresh response like any other: C09's statement covers it too
				j.count("C09", "expected-hit-missed")
				j.fail("C09", "expected-hit-missed", x, lifeSrcOf(hdr, body.Status)+"+freshened", "expected a hit: stored response sid=%d, freshened by the 304 sid=%d, is fresh (age<=%s < lifetime>=%s, cc=%q) and nothing invalidated it, but the exchange made %d origin call(s) (status=%d, cache-status=%v)", body.SID, L.SID, ns(aHi), ns(lLo), hdr.Get("Cache-Control"), len(cx.fg), x.Status, cx.status)
			}
			continue
		}
		if L.Is304 {
			// served from the store: it must show the 304's header fields and the unchanged body
			if L.Bare {
				// no provenance marker to look for: the unchanged body is all that can be checked
				if cx.B != body {
					j.fail("C08", "freshen-lost", x, "fields", "after the 304 sid=%d the stored response is served with body sid=%d (want %d)", L.SID, sidOf(cx.B), body.SID)
				}
			} else if cx.H == nil || cx.H.SID != L.SID || cx.B != body {
				j.fail("C08", "freshen-lost", x, "fields", "after the 304 sid=%d the stored response is served with header provenance sid=%d body sid=%d (want %d / %d)", L.SID, sidOf(cx.H), sidOf(cx.B), L.SID, body.SID)
			} else {
				// "... served from the store with the updated fields": every end-to-end field the 304 carried
				hop := canonHopByHop(L.Header)
				for k, want := range L.Header {
					if hop[k] || k == "Content-Length" || k == "Age" || k == "X-Httpcache-Status" || k == "X-From-Cache" {
						continue // (the last two are the cache's own statement about each exchange, whatever upstream sent)
					}
					if _, ok := parseDate(L.Header.Get("Date")); k == "Date" && !ok {
						continue
					}
					if got := x.Header[k]; !reflect.DeepEqual(got, want) {
						j.fail("C08", "freshen-lost", x, "fields", "after the 304 sid=%d field %s is served as %q, the 304 carried %q", L.SID, k, got, want)
						break
					}
				}
			}
		}
	}
}

func lifeSrcOf(h http.Header, status int) string {
	_, _, s := lifetime(h, status)
	return s
}

// ---------------- C08 (safety): a replaced representation is never served again ----------------

func judgeReplaced(r *Run, j *Judged, cl []*cls, by map[int]*OResp) {
	for _, c := range cl {
		e := c.e
		if e.Op.CancelNs != 0 || c.method != "GET" {
			continue
		}
		for _, u := range e.Calls {
			if u.Resp == nil || u.Resp.Is304 || !storableForSure(u.Resp) {
				continue
			}
			// a validation request: it carries validators the client did not send
			if u.Req.Header.Get("If-None-Match") == e.Req.Header.Get("If-None-Match") && u.Req.Header.Get("If-Modified-Since") == e.Req.Header.Get("If-Modified-Since") {
				continue
			}
			old := r.storedReadIn(e, by)
			if old == nil || old.Is304 || old == u.Resp {
				continue
			}
			done := e.SeqRet
			if !u.Fg {
				done = r.lastSeqOfLineage(u)
			}
			if done == 0 || done == ^uint64(0) {
				continue
			}
			res := u.Res
			vary, stable := r.varyStable(res)
			if !stable {
				// the resource's Vary changes between replies: compare requests on every field any of its
				// replies ever nominates (a request equal on all of them selects what the validated one selected)
				names := map[string]bool{}
				star := false
				for _, p := range r.Scn.Resources[res].Plans {
					for _, f := range strings.Split(p.Vary, ",") {
						if f = strings.TrimSpace(f); f == "*" {
							star = true
						} else if f != "" {
							names[http.CanonicalHeaderKey(f)] = true
						}
					}
				}
				if star {
					continue
				}
				var fs []string
				for f := range names {
					fs = append(fs, f)
				}
				sort.Strings(fs)
				vary = strings.Join(fs, ", ")
			}
			// another validation of the same resource in flight at the same time works on its own copy of the
			// entry and may legitimately finish later: which write lands last is then a race, not a defect
			// (a background validation is bound to the entry its exchange selected when it was invoked: it has
			// "begun" then, well before its origin call starts - an earlier validation that re-keys that entry
			// in between, e.g. a 304 with another Vary, leaves it validating a copy the index no longer names)
			began := func(c *UpCall) uint64 {
				if x := r.exchFor(c.Owner, c.OwnerOp); x != nil && x.SeqInv != 0 && x.SeqInv < c.SeqStart {
					return x.SeqInv
				}
				return c.SeqStart
			}
			overlap := false
			for _, o := range r.Calls {
				if o != u && o.Res == res && began(o) < done && (!o.Ended || r.lastSeqOfLineage(o) > began(u)) {
					overlap = true
				}
			}
			if overlap {
				continue
			}
			K := classKey(vary, u.Req.Header)
			for _, cx := range cl {
				x := cx.e
				if x.SeqInv <= done || !cx.stored || cx.B != old || !x.Returned {
					continue
				}
				if classKey(vary, x.Req.Header) != K {
					continue
				}
				j.count("C08", "replaced-representation-served")
				if cx.fg304 != nil {
					continue
				}
				if cx.H != nil && cx.H.Is304 && cx.H.SeqResp > u.Resp.SeqResp {
					continue // the origin confirmed that representation again (304) after the full reply
				}
				sig := "foreground"
				if !u.Fg {
					sig = "background"
				}
				j.fail("C08", "replaced-representation-served", x, sig, "stored response sid=%d is returned although a full reply sid=%d to its validation (%s, finished at seq %d) replaced it", old.SID, u.Resp.SID, sig, done)
			}
		}
	}
}

// ---------------- C16 (b): ownership of returned responses ----------------

func judgeOwnership(r *Run, j *Judged, cl []*cls) {
	for _, c := range cl {
		e := c.e
		// "it never modifies the caller's request": the value as it stood when RoundTrip was called, field by field
		// (an empty Method is a legal spelling of GET and stays empty)
		if e.Returned && e.Panic == "" {
			j.count("C16", "caller-request-modified")
			if e.Req.RawMethod != e.ReqAfter.RawMethod || e.Req.URL != e.ReqAfter.URL || e.Req.Host != e.ReqAfter.Host ||
				!reflect.DeepEqual(e.Req.Header, e.ReqAfter.Header) || e.Req.Ctx != e.ReqAfter.Ctx {
				j.fail("C16", "caller-request-modified", e, "", "the caller's *http.Request changed during RoundTrip: method %q -> %q, url %q -> %q, host %q -> %q, header %v -> %v", e.Req.RawMethod, e.ReqAfter.RawMethod, e.Req.URL, e.ReqAfter.URL, e.Req.Host, e.ReqAfter.Host, e.Req.Header, e.ReqAfter.Header)
			}
		}
		if e.HdrFinal == nil || e.HdrEnd == nil {
			continue
		}
		j.count("C16", "returned-response-mutated")
		if !reflect.DeepEqual(e.HdrFinal, e.HdrEnd) {
			diff := ""
			for k, v := range e.HdrEnd {
				if !reflect.DeepEqual(e.HdrFinal[k], v) {
					diff += fmt.Sprintf(" %s: %q -> %q;", k, e.HdrFinal[k], v)
				}
			}
			for k, v := range e.HdrFinal {
				if _, ok := e.HdrEnd[k]; !ok {
					diff += fmt.Sprintf(" %s: %q -> deleted;", k, v)
				}
			}
			sig := "foreground"
			if len(c.bg) > 0 {
				sig = "background-revalidation"
			}
			j.fail("C16", "returned-response-mutated", e, sig, "the header map of the response returned at seq %d was modified by the cache after it had been returned:%s", e.SeqRet, diff)
		}
	}
	// poison written by callers into objects they own must never come back
	type tagged struct {
		tag string
		e   *Exch
	}
	var tags []tagged
	for _, c := range cl {
		for _, t := range c.e.Poisons {
			tags = append(tags, tagged{t, c.e})
		}
	}
	if len(tags) == 0 {
		return
	}
	j.count("C16", "poison-leaked")
	for _, t := range tags {
		for _, u := range r.Calls {
			for k, vs := range u.Req.Header {
				for _, v := range vs {
					if strings.Contains(v, t.tag) {
						j.fail("C16", "poison-leaked", t.e, "upstream-request", "value %q written by the caller into its own response/request after return appears in upstream request #%d field %s", t.tag, u.ID, k)
					}
				}
			}
		}
		for _, s := range r.Store {
			if bytes.Contains(s.Val, []byte(t.tag)) {
				j.fail("C16", "poison-leaked", t.e, "store", "value %q written by the caller after return reached the store (%s %q)", t.tag, s.Kind, s.Key)
				break
			}
		}
		for _, c := range cl {
			if c.e == t.e || c.e.Header == nil {
				continue
			}
			hit := bytes.Contains(c.e.Body, []byte(t.tag))
			for _, vs := range c.e.Header {
				for _, v := range vs {
					if strings.Contains(v, t.tag) {
						hit = true
					}
				}
			}
			if hit {
				j.fail("C16", "poison-leaked", c.e, "response", "value %q written by another caller into its own response appears in this response", t.tag)
			}
		}
	}
}
