package engine

import (
	"crypto/sha256"
	"encoding/hex"
	"encoding/json"
	"fmt"
	"github.com/bartventer/httpcache/verifsim/kit"
	"github.com/bartventer/httpcache/verifsim/simclock"
	"os"
	"runtime"
	"sort"
	"strings"
	"sync/atomic"
	"testing"
	"testing/cryptotest"
	"testing/synctest"
	"time"
)

// Job is what the driver hands to one worker process.
type Job struct {
	Mode      string   `json:"mode"` // "explore" | "replay" | "shrink" | "enum"
	Prop      string   `json:"prop"`
	Profiles  []string `json:"profiles"`
	SeedBase  uint64   `json:"seed_base"`
	Start     int      `json:"start"`
	Count     int      `json:"count"`
	Stride    int      `json:"stride"`
	Thorough  bool     `json:"thorough"`
	Out       string   `json:"out"`
	Progress  string   `json:"progress"`
	Replay    string   `json:"replay,omitempty"`
	BudgetSec int      `json:"budget_sec,omitempty"`
	Rule      string   `json:"rule,omitempty"`
	MaxViol   int      `json:"max_viol,omitempty"`
	// mode "history": execute the scenarios with these indices of the explore sequence (SeedBase, Profiles,
	// Thorough), in this order, in this one process; the last one is the one expected to violate Rule / Sig
	Indices []int  `json:"indices,omitempty"`
	Sig     string `json:"sig,omitempty"`
}

type Found struct {
	Seed     uint64    `json:"seed"`
	Profile  string    `json:"profile"`
	V        Violation `json:"violation"`
	Scenario *Scenario `json:"scenario"`
	Digest   string    `json:"digest"`
	// Hist: how to regenerate every scenario this worker process executed before this one (explore mode)
	Hist *HistRef `json:"hist,omitempty"`
}

// HistRef names the explore-mode sequence a scenario was part of: scenarios Start, Start+Stride, ..., Index.
type HistRef struct {
	SeedBase uint64   `json:"seed_base"`
	Profiles []string `json:"profiles"`
	Start    int      `json:"start"`
	Stride   int      `json:"stride"`
	Index    int      `json:"index"`
	Thorough bool     `json:"thorough"`
}

type WorkerOut struct {
	Runs         int            `json:"runs"`
	Steps        uint64         `json:"steps"`
	VirtNs       float64        `json:"virt_ns"`
	WallS        float64        `json:"wall_s"`
	Faults       map[string]int `json:"faults"`
	Probes       map[string]int `json:"probes"`
	Judgements   map[string]int `json:"judgements"`
	OtherHits    map[string]int `json:"other_hits"`
	Sigs         []string       `json:"sigs"`
	Nontrivial   int            `json:"nontrivial"`
	Found        []Found        `json:"found"`
	Ambiguous    int            `json:"ambiguous"`
	Deadlocks    int            `json:"deadlocks"`
	Samples      []any          `json:"samples"`
	Backends     map[string]int `json:"backends"`
	Exchanges    int            `json:"exchanges"`
	StoreOps     int            `json:"store_ops"`
	OriginCalls  int            `json:"origin_calls"`
	Inconclusive int            `json:"inconclusive"`
	Extra        map[string]any `json:"extra,omitempty"`
}

// Exec runs one scenario in a fresh bubble and judges it.
// execActive is true while a scenario executes inside its bubble (not while it is generated or judged).
var execActive atomic.Bool

// SpinLimit is how long (real time) an execution may go without a single scheduling step.
// (Under the race detector the harness's own bookkeeping - regular expressions over megabyte values - is an order
// of magnitude slower, and on a loaded machine a single step has been seen to take longer than 12 s.)
var SpinLimit = 12 * time.Second

func init() {
	if raceBuild {
		SpinLimit = 90 * time.Second
	}
}

// spinWatch runs outside every bubble, on the real clock. A goroutine of the library that loops without
// ever reaching a seam freezes the simulation (nothing parks, virtual time cannot advance); no in-bubble
// oracle can see that. The watchdog reports it with all stacks and ends the process; the driver replays the
// recorded scenario to confirm and reports the hang (C10).
func spinWatch() {
	last, since := kit.Beat.Load(), time.Now()
	for {
		time.Sleep(500 * time.Millisecond)
		if b := kit.Beat.Load(); b != last || !execActive.Load() {
			last, since = b, time.Now()
			continue
		}
		if time.Since(since) < SpinLimit {
			continue
		}
		buf := make([]byte, 1<<20)
		n := runtime.Stack(buf, true)
		var spinning, blocked []string
		for _, blk := range strings.Split(string(buf[:n]), "\n\n") {
			head, _, _ := strings.Cut(blk, "\n")
			if !hasSUTFrame(blk) {
				continue
			}
			switch {
			case strings.Contains(head, "[running") || strings.Contains(head, "[runnable"):
				spinning = append(spinning, blk)
			case strings.Contains(head, "synctest bubble") && !strings.Contains(head, "(durable)") && !strings.Contains(head, "[sleep"):
				// waiting for something that lives outside the bubble (a channel or lock created at package
				// level): the virtual clock cannot pass it, nobody inside the bubble will ever release it
				blocked = append(blocked, blk)
			}
		}
		fmt.Printf("sim: SPIN DETECTED: no scheduling step for %s while a scenario was executing\n", SpinLimit)
		if len(spinning) == 0 && len(blocked) > 0 {
			fmt.Printf("goroutines of the library that wait for something no goroutine of the run will release (process-wide channel or lock):\n%s\n", strings.Join(blocked, "\n\n"))
		} else {
			fmt.Printf("goroutines of the library that are running without reaching a seam:\n%s\n", strings.Join(spinning, "\n\n"))
		}
		os.Exit(3)
	}
}

func Exec(t *testing.T, scn *Scenario) (r *Run, jd *Judged) {
	// crypto/rand (GCM nonces, temporary file names) is part of the execution: seed it
	cryptotest.SetGlobalRandom(t, scn.Seed^scn.SchedSeed)
	// the process's time zone is part of the environment: what the library formats or parses without saying
	// "UTC" depends on it
	// (the zone is written into the Location that time.Local points to, after making sure it has been
	// initialised: the pointer itself is read by every time.Now(), also by the watchdog goroutine)
	simclock.Reset()
	_ = time.Now().Local().String()
	saved := *time.Local
	if scn.TZMin != 0 {
		*time.Local = *time.FixedZone(fmt.Sprintf("SIM%+d", scn.TZMin), scn.TZMin*60)
	} else {
		*time.Local = *time.UTC
	}
	defer func() { *time.Local = saved }()
	func() {
		execActive.Store(true)
		defer execActive.Store(false)
		defer func() {
			if p := recover(); p != nil {
				if r == nil {
					r = curRunOrNil()
				}
				if r != nil && strings.Contains(fmt.Sprint(p), "deadlock") {
					r.Deadlock = fmt.Sprint(p)
				} else {
					panic(p)
				}
			}
		}()
		synctest.Test(t, func(t *testing.T) {
			switch scn.Engine {
			case "ssim":
				r = RunSsim(scn)
			default:
				r = RunTsim(scn)
			}
		})
	}()
	if scn.Engine == "ssim" {
		jd = JudgeSsim(r)
	} else {
		jd = Judge(r)
	}
	if r.Deadlock != "" {
		jd.count("C20", "goroutine-leak")
		jd.fail("C20", "goroutine-leak", nil, "deadlock", "goroutines of the system under test never finished: %s", r.Deadlock)
	}
	return r, jd
}

func runSig(r *Run, jd *Judged, prop string) string {
	h := sha256.New()
	for _, e := range r.Sim.Log {
		fmt.Fprintf(h, "%s|%s\n", e.G, e.Kind)
	}
	ks := make([]string, 0, len(jd.Judgements))
	for k := range jd.Judgements {
		if strings.HasPrefix(k, prop+"/") {
			ks = append(ks, k)
		}
	}
	sort.Strings(ks)
	fmt.Fprint(h, ks)
	fs := make([]string, 0, len(r.Faults))
	for k := range r.Faults {
		fs = append(fs, k)
	}
	sort.Strings(fs)
	fmt.Fprint(h, fs)
	return hex.EncodeToString(h.Sum(nil))[:12]
}

func propJudged(jd *Judged, prop string) int {
	n := 0
	for k, v := range jd.Judgements {
		if strings.HasPrefix(k, prop+"/") {
			n += v
		}
	}
	return n
}

func mix(a, b uint64) uint64 {
	x := a*0x9e3779b97f4a7c15 + b + 0x7f4a7c15
	x ^= x >> 30
	x *= 0xbf58476d1ce4e5b9
	x ^= x >> 27
	x *= 0x94d049bb133111eb
	x ^= x >> 31
	return x
}

func writeJSON(path string, v any) {
	b, err := json.MarshalIndent(v, "", " ")
	if err != nil {
		panic(err)
	}
	if err := os.WriteFile(path, b, 0o644); err != nil {
		panic(err)
	}
}

// RunWorker is the entry point of a worker process (called from TestWorker).
func RunWorker(t *testing.T) {
	jp := os.Getenv("VSIM_JOB")
	if jp == "" {
		t.Skip("no VSIM_JOB")
	}
	raw, err := os.ReadFile(jp)
	if err != nil {
		t.Fatal(err)
	}
	var job Job
	if err := json.Unmarshal(raw, &job); err != nil {
		t.Fatal(err)
	}
	go spinWatch()
	switch job.Mode {
	case "replay":
		replayMode(t, &job)
	case "shrink":
		shrinkMode(t, &job)
	case "enum":
		enumMode(t, &job)
	case "one":
		oneMode(t, &job)
	case "digests":
		// determinism self-test: event-log digest of every (profile, index) pair
		out := map[string]string{}
		for _, prof := range job.Profiles {
			for i := job.Start; i < job.Start+job.Count; i++ {
				scn := Gen(prof, mix(job.SeedBase, uint64(i)), job.Thorough)
				r, jd := Exec(t, scn)
				vs := ""
				for _, v := range jd.Violations {
					vs += v.Prop + "/" + v.Sig + ";"
				}
				out[fmt.Sprintf("%s:%d", prof, i)] = fmt.Sprintf("%s steps=%d amb=%d %s", r.Sim.Digest(), r.Sim.Steps, r.Sim.Ambiguous, vs)
			}
		}
		writeJSON(job.Out, out)
	case "history":
		historyMode(t, &job)
	case "gen":
		writeJSON(job.Out, map[string]any{"scenario": Gen(job.Profiles[0], job.SeedBase, job.Thorough)})
	default:
		exploreMode(t, &job)
	}
}

func newOut() *WorkerOut {
	return &WorkerOut{Faults: map[string]int{}, Probes: map[string]int{}, Judgements: map[string]int{}, OtherHits: map[string]int{}, Backends: map[string]int{}, Extra: map[string]any{}}
}

func (o *WorkerOut) absorb(r *Run, jd *Judged, prop string, sigs map[string]bool) {
	o.Runs++
	o.Steps += r.Sim.Steps
	o.VirtNs += float64(r.VirtSpan)
	o.Ambiguous += r.Sim.Ambiguous
	o.Exchanges += len(r.Exchs)
	o.StoreOps += len(r.Store)
	o.OriginCalls += len(r.Calls)
	o.Backends[r.Scn.Backend]++
	o.Inconclusive += r.Inconclusive
	o.StoreOps += len(r.SHists)
	if r.Crashes > 0 {
		o.Faults["process.kill"] += r.Crashes
	}
	if r.Deadlock != "" {
		o.Deadlocks++
	}
	for k, v := range r.Faults {
		o.Faults[k] += v
	}
	if r.Sim.Stalls > 0 {
		o.Faults["sched.stall"] += r.Sim.Stalls
	}
	for k, v := range r.Probes {
		o.Probes[k] += v
	}
	for k, v := range jd.Judgements {
		o.Judgements[k] += v
	}
	if propJudged(jd, prop) > 0 {
		s := runSig(r, jd, prop)
		if !sigs[s] {
			sigs[s] = true
			o.Nontrivial++
		}
	}
}

func sampleOf(scn *Scenario, r *Run) any {
	var trace []string
	for i, e := range r.Sim.Log {
		if i >= 60 {
			trace = append(trace, fmt.Sprintf("... %d more events", len(r.Sim.Log)-i))
			break
		}
		trace = append(trace, strings.Join(strings.Fields(e.String()), " "))
	}
	return map[string]any{"seed": scn.Seed, "profile": scn.Profile, "scenario": scn, "event_log": trace}
}

// writeProgress records what is about to run, so that the driver can replay it if the process dies.
func writeProgress(path string, scn *Scenario, i int) {
	if path == "" {
		return
	}
	b, _ := json.Marshal(map[string]any{"seed": scn.Seed, "profile": scn.Profile, "i": i, "scenario": scn})
	os.WriteFile(path, b, 0o644)
}

func exploreMode(t *testing.T, job *Job) {
	out := newOut()
	sigs := map[string]bool{}
	t0 := time.Now()
	stride := max(job.Stride, 1)
	maxV := job.MaxViol
	if maxV == 0 {
		maxV = 3
	}
	seenSig := map[string]bool{}
	for i := job.Start; i < job.Count; i += stride {
		if job.BudgetSec > 0 && time.Since(t0) > time.Duration(job.BudgetSec)*time.Second {
			break
		}
		seed := mix(job.SeedBase, uint64(i))
		prof := job.Profiles[i%len(job.Profiles)]
		scn := Gen(prof, seed, job.Thorough)
		writeProgress(job.Progress, scn, i)
		r, jd := Exec(t, scn)
		if r.Sim.Ambiguous > 0 {
			out.Ambiguous += r.Sim.Ambiguous
			out.Runs++
			continue // discarded, never reported
		}
		out.absorb(r, jd, job.Prop, sigs)
		if len(out.Samples) < 2 && propJudged(jd, job.Prop) > 0 {
			out.Samples = append(out.Samples, sampleOf(scn, r))
		}
		for _, v := range jd.Violations {
			if v.Prop != job.Prop {
				out.OtherHits[v.Prop+"/"+v.Rule]++
				continue
			}
			if seenSig[v.Sig] || len(out.Found) >= maxV*4 {
				out.Extra["more:"+v.Sig] = 1
				continue
			}
			seenSig[v.Sig] = true
			sc := *scn
			sc.Decisions = append([]int(nil), r.Sim.T.Rec...)
			out.Found = append(out.Found, Found{Seed: seed, Profile: prof, V: v, Scenario: &sc, Digest: r.Sim.Digest(),
				Hist: &HistRef{SeedBase: job.SeedBase, Profiles: job.Profiles, Start: job.Start, Stride: stride, Index: i, Thorough: job.Thorough}})
		}
	}
	out.WallS = time.Since(t0).Seconds()
	for s := range sigs {
		out.Sigs = append(out.Sigs, s)
	}
	sort.Strings(out.Sigs)
	writeJSON(job.Out, out)
}

// ReplayFile is the on-disk form of a (minimised) failing execution.
type ReplayFile struct {
	Property string    `json:"property"`
	Rule     string    `json:"rule"`
	Sig      string    `json:"sig"`
	Seq      uint64    `json:"seq"`
	Msg      string    `json:"msg"`
	Digest   string    `json:"digest"`
	Seed     uint64    `json:"seed"`
	Scenario *Scenario `json:"scenario"`
	EventLog []string  `json:"event_log,omitempty"`
	// History: scenarios to execute before Scenario in the same process. The violation depends on state of
	// the library that outlives a transport (package-level variables): one scenario alone does not show it.
	History []*Scenario `json:"history,omitempty"`
	Crash   string      `json:"crash,omitempty"` // process-level failure (fatal error / panic in a detached goroutine)
	Race    bool        `json:"race,omitempty"`  // needs the -race build
	Cold    bool        `json:"cold,omitempty"`  // only the first execution of a process shows it: replayed in fresh processes
}

func findViolation(jd *Judged, prop, rule, sig string) *Violation {
	for i := range jd.Violations {
		v := &jd.Violations[i]
		if v.Prop == prop && v.Rule == rule && (sig == "" || v.Sig == sig) {
			return v
		}
	}
	return nil
}

func replayMode(t *testing.T, job *Job) {
	raw, err := os.ReadFile(job.Replay)
	if err != nil {
		t.Fatal(err)
	}
	var rf ReplayFile
	if err := json.Unmarshal(raw, &rf); err != nil {
		t.Fatal(err)
	}
	if job.Progress != "" {
		os.WriteFile(job.Progress, []byte(fmt.Sprintf(`{"seed":%d,"profile":%q,"replay":true}`, rf.Seed, rf.Scenario.Profile)), 0o644)
	}
	if rf.Race {
		// the race detector's shadow state is not deterministic: repeat the same execution until it reports
		// (the process ends with the report) or the repetition budget is used up
		n := 400
		if rf.Cold {
			n = 2
		}
		for i := 0; i < n; i++ {
			Exec(t, rf.Scenario)
		}
	}
	for _, h := range rf.History {
		Exec(t, h)
	}
	r, jd := Exec(t, rf.Scenario)
	res := map[string]any{"digest": r.Sim.Digest(), "want_digest": rf.Digest, "reproduced": false}
	if v := findViolation(jd, rf.Property, rf.Rule, rf.Sig); v != nil {
		res["reproduced"] = true
		res["seq"] = v.Seq
		res["msg"] = v.Msg
		res["same_digest"] = r.Sim.Digest() == rf.Digest
		res["same_seq"] = v.Seq == rf.Seq
	}
	var all []string
	for _, v := range jd.Violations {
		all = append(all, v.Prop+"/"+v.Sig)
	}
	res["violations"] = all
	var trace []string
	for _, e := range r.Sim.Log {
		trace = append(trace, e.String())
	}
	res["event_log"] = trace
	writeJSON(job.Out, res)
}

// historyMode executes a chosen sub-sequence of an explore-mode sequence in one process and reports whether
// the last scenario shows the violation; with the scenarios themselves, so that the driver can write a
// self-contained replay file.
func historyMode(t *testing.T, job *Job) {
	var scns []*Scenario
	var r *Run
	var jd *Judged
	for _, i := range job.Indices {
		scn := Gen(job.Profiles[i%len(job.Profiles)], mix(job.SeedBase, uint64(i)), job.Thorough)
		scns = append(scns, scn)
		writeProgress(job.Progress, scn, i)
		r, jd = Exec(t, scn)
	}
	res := map[string]any{"reproduced": false}
	if r != nil {
		res["digest"] = r.Sim.Digest()
		if v := findViolation(jd, job.Prop, job.Rule, job.Sig); v != nil {
			res["reproduced"], res["seq"], res["msg"] = true, v.Seq, v.Msg
			res["scenarios"] = scns
		}
	}
	writeJSON(job.Out, res)
}

// oneMode: run a single generated scenario and print everything (debugging aid).
func oneMode(t *testing.T, job *Job) {
	seed := mix(job.SeedBase, uint64(job.Start))
	if job.Stride < 0 {
		seed = job.SeedBase
	}
	scn := Gen(job.Profiles[0], seed, job.Thorough)
	r, jd := Exec(t, scn)
	b, _ := json.MarshalIndent(scn, "", " ")
	fmt.Println(string(b))
	for _, e := range r.Sim.Log {
		fmt.Println(e.String())
	}
	fmt.Println("digest", r.Sim.Digest(), "steps", r.Sim.Steps, "ambiguous", r.Sim.Ambiguous, "hung", r.Sim.Hung, "faults", r.Faults)
	for _, v := range jd.Violations {
		fmt.Printf("VIOL %s %s seq=%d c%d op%d: %s\n", v.Prop, v.Sig, v.Seq, v.Client+1, v.Op, v.Msg)
	}
}
