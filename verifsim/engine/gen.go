package engine

import (
	"encoding/hex"
	"fmt"
	"math/rand/v2"
	"strconv"
	"strings"
	"time"
	"unicode/utf8"

	"github.com/bartventer/httpcache/verifsim/kit"
)

// selTable: field -> meanings -> spellings. Spellings of one meaning are
// equivalent by construction (list order, optional whitespace, q=1 ≡ absent,
// x-gzip ≡ gzip); different meanings are definitely different.
var selTable = map[string][][]string{
	"Accept-Encoding": {{"gzip", "x-gzip", "gzip;q=1.0"}, {"gzip, br", "br,gzip", "br, x-gzip"}, {"br;q=0"}, {"identity"}, {"x-gzip-ng"}, {"gzip-ng"}, {""}},
	"Accept-Language": {{"en", "en;q=1"}, {"en, fr;q=0.8", "fr;q=0.8, en", "en,fr;q=0.80"}, {"de"}, {""}},
	"Accept":          {{"text/html", "text/html;q=1.0"}, {"application/json, text/plain;q=0.5", "text/plain;q=0.5,application/json"}, {"text/html;level=1"}, {"text/html;level=1, text/html;level=2", "text/html;level=2,text/html;level=1"}, {""}},
	// fields whose values are case-sensitive (a URI path, product tokens): one spelling per meaning
	"Referer":    {{"http://h.test/Doc/A", "HTTP://H.TEST/Doc/A"}, {"http://h.test/doc/a"}, {""}},
	"User-Agent": {{"Fetcher/1.0 (Build-AB)"}, {"Crawler/2.1"}, {"caf\xe9-bot/1"}, {"caf\xe8-bot/1"}, {""}}, // (compared without regard to case by the library: a test of the suite pins that)
	// (the two 16-digit values are distinct values whose variant keys collide under a 64-bit FNV hash)
	"X-A":      {{"1"}, {"9d863088ea8a569f"}, {"9170dae036e4c82e"}, {"2"}, {"1X-B2"}, {"12"}, {""}},
	"X-B":      {{"2"}, {"1"}, {"X-A1"}, {""}},
	"X-Tenant": {{"alpha"}, {"beta"}, {"caf\xe9"}, {""}}, // obs-text (a byte >= 0x80) is a legal field value
	// credentials that differ only after the first token (one spelling per meaning: nothing is claimed equivalent)
	"Authorization": {{`OAuth oauth_consumer_key="app", oauth_token="alice"`}, {`OAuth oauth_consumer_key="app", oauth_token="bob"`}, {`Digest realm="api", username="alice", nonce="n1"`}, {`Digest realm="api", username="bob", nonce="n1"`}, {"Bearer tok1"}, {"Bearer tok2"}, {""}},
}

var knownFindingValue = map[string]bool{"9d863088ea8a569f": true, "9170dae036e4c82e": true, "br;q=0": true}

var spellingMeaning = func() map[string]string {
	m := map[string]string{}
	for f, ms := range selTable {
		for i, sp := range ms {
			for _, s := range sp {
				m[f+"\x00"+s] = "m" + strconv.Itoa(i)
				if s == "" {
					m[f+"\x00"+s] = ""
				}
			}
		}
	}
	return m
}()

type gen struct {
	*rand.Rand
	jitter bool
	selOff map[string]int // per selecting field: where this run's window of meanings starts
}

func (g *gen) chance(pct int) bool  { return g.IntN(100) < pct }
func pick[T any](g *gen, xs ...T) T { return xs[g.IntN(len(xs))] }

// wpick draws an index according to integer weights.
func (g *gen) wpick(ws ...int) int {
	t := 0
	for _, w := range ws {
		t += w
	}
	x := g.IntN(t)
	for i, w := range ws {
		if x < w {
			return i
		}
		x -= w
	}
	return len(ws) - 1
}

func (g *gen) dur(secs int64) int64 {
	d := secs * int64(time.Second)
	if g.jitter && d > 0 {
		d += int64(g.IntN(2_000_000_001)) - 1_000_000_000
		if d < 1 {
			d = 1
		}
	}
	return d
}

// bias: the knobs a profile turns.
type bias struct {
	clients              [2]int
	ops                  [2]int
	resources            [2]int
	plans                [2]int
	backends             []string
	loggers              []string
	faultFree            bool
	readFaultsOnly       bool     // store faults are transient read errors only (err / timeout on Get)
	varyFrom             []string // if set: the Vary values plans are drawn from
	pBare304             int      // chance that a plan answers validations with a minimal 304
	pReuse, pReuseChange int      // a client sends an earlier request value again / after changing its selecting fields in place
	sched                []string
	stallPct             int
	lifetimes            []int64 // seconds
	freshKinds           []int   // weights: max-age, expires, heuristic, none
	pAgeHdr              int
	pDateOdd             int
	pHuge                int
	pSWR                 int
	pSIE                 int
	pMustReval           int
	pNoCache             int
	pNoCacheQ            int
	pNoStore             int
	pImmutable           int
	pVary                int
	pVaryStar            int
	pVaryFlip            int // chance that plans of one resource differ in Vary
	statuses             []int
	pErrStatus           int
	pNetFault            int
	pLatency             int
	pBigBody             int
	pFraming             int
	pHop                 int
	pChange              int
	pNo304               int
	pValidator           int
	pReqCC               int
	reqCCs               []string
	pUnsafe              int
	pOtherMeth           int
	pRange               int
	pCond                int
	pCancel              int
	pOddURL              int
	pStall               int
	pClockStep           int
	kfValues             bool
	pPoison              int
	pPartial             int
	pRespell             int
	pSelHdr              int
	pRestart             int
	storeFaults          int // max number of store faults
	diskFaults           int
	thinkFocus           int // percent of think times drawn from boundary set
	pStoreLat            int
	swrTimeouts          []int64 // ns; -1 = unset
	maxBody              int
	pLoc                 int
	pair                 bool
	crashy               bool
	pCorrupt             int
	pLongURL             int
	pMultiLine           int
	pMultiField          int
	thinks               []int64
}

func defaultBias() bias {
	return bias{
		clients: [2]int{1, 1}, ops: [2]int{3, 10}, resources: [2]int{1, 2}, plans: [2]int{1, 3},
		backends: []string{"mem", "mem", "fs", "fsenc"}, loggers: []string{"discard", "discard", "text", "json"},
		pReuse: 12, pReuseChange: 40,
		faultFree: true, sched: []string{"random", "sticky", "pct", "fifo"},
		lifetimes: []int64{0, 1, 2, 5, 10, 60, 300}, freshKinds: []int{6, 2, 2, 1},
		pAgeHdr: 15, pDateOdd: 10, pHuge: 3, pSWR: 15, pSIE: 10, pMustReval: 10, pNoCache: 8, pNoCacheQ: 4, pNoStore: 4, pImmutable: 5,
		pVary: 15, pVaryStar: 2, pVaryFlip: 10, statuses: []int{200}, pErrStatus: 3, pNetFault: 0, pLatency: 25,
		pBigBody: 5, pFraming: 30, pHop: 15, pChange: 30, pNo304: 10, pValidator: 70,
		pReqCC: 20, reqCCs: []string{"no-cache", "max-age=0", "max-age=5", "max-stale", "max-stale=5", "min-fresh=2", "only-if-cached", "no-store", "max-age=60", "stale-if-error=30"},
		pUnsafe: 3, pOtherMeth: 3, pRange: 2, pCond: 2, pCancel: 0, pPoison: 10, pPartial: 5, pRespell: 20, pSelHdr: 30,
		thinkFocus: 70, pStoreLat: 10, swrTimeouts: []int64{-1, -1, 0, -5, 1, int64(time.Second), int64(5 * time.Second), int64(60 * time.Second)},
		maxBody: 2000, pLoc: 0, pLongURL: 6, pMultiLine: 8,
	}
}

var unsafeMethods = []string{"POST", "PUT", "DELETE", "PATCH", "PROPPATCH", "MKCOL", "MOVE", "LOCK", "PURGE", "FOO"}
var otherMethods = []string{"HEAD", "OPTIONS", "TRACE", "PROPFIND"}

func (g *gen) respCC(b *bias, life *int64, swr, sie *int64) string {
	var parts []string
	return strings.Join(parts, ", ")
}

func (g *gen) plan(b *bias, resIdx, nRes int, vary string) RespPlan {
	p := RespPlan{Status: pick(g, b.statuses...)}
	if g.chance(b.pErrStatus) {
		p.Status = pick(g, 500, 502, 503, 504, 404, 400, 403, 429, 501)
	}
	var cc []string
	life := pick(g, b.lifetimes...)
	switch g.wpick(b.freshKinds...) {
	case 0:
		v := strconv.FormatInt(life, 10)
		if g.chance(b.pHuge) {
			v = pick(g, "2147483647", "2147483648", "9223372036", "9223372037", "18446744073", "9223372036854775807", "99999999999999999999", "-1", "abc", "1.5")
		}
		cc = append(cc, "max-age="+v)
		if g.chance(10) {
			p.ExpMode, p.ExpDelta = "rel", pick(g, b.lifetimes...)
		}
		if g.chance(25) {
			p.LMMode = "rel"
		}
	case 1:
		p.ExpMode, p.ExpDelta = "rel", life
		if g.chance(15) {
			p.ExpMode = pick(g, "zero", "invalid", "empty")
		}
		if g.chance(10) {
			p.ExpDelta = -life
		}
		if g.chance(25) {
			p.LMMode = "rel"
		}
	case 2:
		p.LMMode = "rel"
		if g.chance(10) {
			p.LMMode = "invalid"
		}
		if g.chance(15) {
			cc = append(cc, "public")
		}
	case 3:
		if g.chance(30) {
			cc = append(cc, pick(g, "public", "private"))
		}
	}
	if g.chance(b.pSWR) {
		cc = append(cc, "stale-while-revalidate="+strconv.Itoa(pick(g, 1, 2, 5, 10, 60)))
	}
	if g.chance(b.pSIE) {
		cc = append(cc, "stale-if-error="+strconv.Itoa(pick(g, 1, 2, 5, 10, 60)))
	}
	if g.chance(b.pMustReval) {
		cc = append(cc, "must-revalidate")
	}
	if g.chance(b.pNoCache) {
		cc = append(cc, "no-cache")
	} else if g.chance(b.pNoCacheQ) && g.chance(25) {
		cc = append(cc, pick(g, `no-cache="ETag"`, `no-cache="ETag, Last-Modified"`, `no-cache="Last-Modified"`))
	} else if g.chance(b.pNoCacheQ) {
		cc = append(cc, `no-cache="Set-Cookie, X-Secret"`)
		p.Extra = append(p.Extra, [2]string{"Set-Cookie", "sid=secret$SID"}, [2]string{"X-Secret", "s$SID"})
	}
	if g.chance(b.pNoStore) {
		cc = append(cc, "no-store")
	}
	if g.chance(b.pImmutable) {
		cc = append(cc, "immutable")
	}
	if g.chance(3) {
		cc = append(cc, pick(g, "s-maxage=100", "must-understand", "no-transform", "x-ext=1"))
	}
	g.Shuffle(len(cc), func(i, j int) { cc[i], cc[j] = cc[j], cc[i] })
	p.CC = strings.Join(cc, ", ")
	if g.chance(b.pAgeHdr) {
		p.Age = pick(g, "0", "1", "2", "5", "30", "100")
		if g.chance(b.pHuge * 3) {
			p.Age = pick(g, "2147483648", "9223372036", "9223372037", "18446744073", "9223372036854775807", "99999999999999999999", "-5", "x", "dup:3,7")
		}
	}
	if g.chance(b.pDateOdd) {
		p.DateMode = pick(g, "skew", "skew", "absent", "invalid")
		p.DateSkew = pick(g, int64(-3600), -60, -5, -1, 1, 5, 60, 3600)
		if g.chance(b.pHuge * 3) {
			// an origin clock that is centuries off (still a valid HTTP-date)
			p.DateSkew = pick(g, int64(-9300000000), -12000000000, -2147483648, 9300000000, 2147483648)
		}
	}
	if g.chance(b.pValidator) {
		p.ETag = pick(g, "strong", "strong", "weak")
		if g.chance(30) && p.LMMode == "" {
			p.LMMode = "rel"
		}
	} else if g.chance(30) && p.LMMode == "" && g.wpick(b.freshKinds...) != 3 {
		// Last-Modified as the only validator (also enables heuristics if nothing explicit)
	}
	p.Vary = vary
	p.BodyLen = pick(g, 0, 33, 40, 100, 100, 500, 1500)
	if g.chance(b.pBigBody) {
		p.BodyLen = g.IntN(b.maxBody + 1)
	}
	p.BodyClass = g.wpick(6, 2, 2)
	if g.chance(b.pFraming) {
		p.Framing = pick(g, "chunked", "close", "h10", "h10close", "h2", "h2nolen")
		if p.Framing == "chunked" && g.chance(30) {
			p.Trailer = [][2]string{{"X-Trailer", "t$SID"}}
		}
	}
	if g.chance(40) {
		n := 1 + g.IntN(3)
		for i := 0; i < n; i++ {
			p.Chunks = append(p.Chunks, 1+g.IntN(max(p.BodyLen, 8)))
		}
	}
	if g.chance(b.pLatency) {
		p.LatNs = g.dur(pick(g, int64(1), 1, 2, 3, 5, 10))
	}
	if len(p.Chunks) > 0 && g.chance(20) {
		p.ChunkLatNs = g.dur(1)
	}
	if g.chance(b.pNetFault) {
		p.Fault = pick(g, "err", "err", "reset", "eof", "hang")
		p.FaultAt = g.IntN(max(p.BodyLen, 1))
		if g.chance(15) {
			p.FaultAt = -(1 + g.IntN(99))
		}
	}
	if p.Status >= 500 && p.Fault == "" && g.chance(b.pStall) {
		// an error reply whose body never ends: nothing in it is needed to answer the caller
		p.Fault, p.FaultAt, p.CC, p.ExpMode, p.CCStyle = "stall", g.IntN(max(p.BodyLen, 1)), "no-store", "", ""
		if p.BodyLen == 0 {
			p.BodyLen = 40
		}
		if p.Framing == "h2nolen" || p.Framing == "close" || p.Framing == "h10close" {
			p.Framing = ""
		}
	}
	if g.chance(b.pHop) {
		// (field names are case-insensitive: the nomination need not be spelled like the field line)
		nom := pick(g, "keep-alive, X-Hop-Custom", "keep-alive, x-hop-custom", "Keep-Alive,X-HOP-CUSTOM", "x-hop-custom")
		p.Hop = [][2]string{{"Connection", nom}, {"Keep-Alive", "timeout=5, max=HOPMARK$SID"}, {pick(g, "X-Hop-Custom", "x-hop-custom"), "HOPMARK-custom-$SID"}, {"Proxy-Authenticate", "Basic realm=HOPMARK$SID"}}
		if g.chance(40) {
			p.Hop = append(p.Hop, [2]string{"Upgrade", "HOPMARK/$SID"}, [2]string{"Proxy-Connection", "HOPMARK-keep"})
		}
		if g.chance(30) {
			p.Hop = append(p.Hop, [2]string{"TE", "trailers, HOPMARK$SID"})
		}
		if g.chance(25) {
			// the nominations on two field lines (one list, RFC 9110 §5.3)
			p.Hop[0] = [2]string{"Connection", "keep-alive"}
			p.Hop = append(p.Hop, [2]string{"Connection", pick(g, "X-Hop-Custom", "x-hop-custom")})
		}
	}
	if len(p.Hop) == 0 && g.chance(max(b.pHop/2, 5)) {
		// the same field as an ordinary end-to-end field: what one message nominates in Connection is
		// hop-by-hop in that message only
		p.Extra = append(p.Extra, [2]string{pick(g, "X-Hop-Custom", "x-hop-custom"), "plain-$SID"})
	}
	if g.chance(30) {
		p.Extra = append(p.Extra, [2]string{"Content-Type", pick(g, "text/plain", "application/octet-stream", "text/html; charset=utf-8")})
	}
	if g.chance(6) {
		// an origin that sits behind a cache of the same kind: its replies carry that cache's status fields
		p.Extra = append(p.Extra, [2]string{"X-From-Cache", "1"})
		if g.chance(50) {
			p.Extra = append(p.Extra, [2]string{"X-Httpcache-Status", pick(g, "HIT", "STALE", "MISS")})
		}
	}
	if g.chance(max(b.pMultiField, 15)) {
		p.Extra = append(p.Extra, [2]string{"X-Multi", "a$SID"}, [2]string{"X-Multi", "b, c"}, [2]string{"Link", `</x>; rel="next", </y>; rel="prev"`})
	}
	if p.CC != "" && g.chance(4) {
		// a directive given twice with different arguments
		for _, d := range splitList(p.CC) {
			if strings.HasPrefix(d, "max-age=") && !strings.Contains(p.CC, "s-maxage") {
				p.CC += ", max-age=" + pick(g, "86400", "3600", "0")
				break
			}
			if d == "no-cache" {
				p.CC += `, no-cache="Set-Cookie"`
				break
			}
		}
	}
	if p.CC != "" && g.chance(12) {
		p.CCStyle = pick(g, "lines", "case", "quoted")
	}
	p.Change = g.chance(b.pChange)
	p.No304 = g.chance(b.pNo304)
	p.Bare304 = g.chance(b.pBare304)
	p.VaryLines = strings.Contains(p.Vary, ",") && g.chance(25)
	if g.chance(b.pLoc) {
		p.Loc = pick(g, "rel", "abs", "cross", "netpath")
		p.LocRes = g.IntN(nRes)
	}
	if g.chance(b.pLoc) {
		p.CLoc = pick(g, "rel", "abs", "cross", "netpath")
		p.CLocRes = g.IntN(nRes)
	}
	return p
}

var varyChoices = []string{"X-A", "X-A, X-B", "X-B, X-A", "Accept-Encoding", "Accept-Language", "Accept, Accept-Encoding", "X-Tenant", "Authorization", "X-A, *", "Accept", "Referer", "User-Agent"}

func (g *gen) resource(b *bias, i, n int) Resource {
	host := "a.test"
	if i%3 == 2 {
		host = "b.test:8080"
	}
	r := Resource{Host: host, Path: fmt.Sprintf("/r%d/p%%2Fq~z", i)}
	if g.chance(40) {
		r.Query = "k=v%2Fw~" + strconv.Itoa(i)
	}
	if g.chance(10) {
		// queries that net/url accepts although they are not well-formed percent-encoding
		r.Query = pick(g, "d=50%", "q=%zz", "q=%4", "rate=5%&x=1", "m=100%25%", "%", "a=%%41", "q={FF}", "n=caf{E9}")
	}
	if g.chance(8) {
		r.Path, r.Query = "/", fmt.Sprintf("r%d=1", i)
	}
	if g.chance(b.pLongURL) {
		// long URIs: store keys around the 255-byte file-name limit of the file-system backend and beyond
		want := pick(g, 150, 170, 180, 185, 186, 188, 190, 191, 192, 195, 200, 260, 300, 600)
		base := len("http://" + host + r.Path)
		if want > base+2 && r.Path != "/" {
			r.Path += "/" + strings.Repeat("l", want-base-1)
		}
	}
	r.LMBase = pick(g, int64(10), 100, 1000, 10000, 1000000)
	vary := ""
	choices := varyChoices
	if len(b.varyFrom) > 0 {
		choices = b.varyFrom
	}
	if g.chance(b.pVary) {
		vary = pick(g, choices...)
	}
	if g.chance(b.pVaryStar) {
		vary = "*"
	}
	np := b.plans[0] + g.IntN(b.plans[1]-b.plans[0]+1)
	for k := 0; k < np; k++ {
		v := vary
		if g.chance(b.pVaryFlip) {
			if len(b.varyFrom) > 0 {
				v = pick(g, choices...)
			} else {
				v = pick(g, append(varyChoices, "", "*")...)
			}
		}
		r.Plans = append(r.Plans, g.plan(b, i, n, v))
	}
	return r
}

func (g *gen) selHeaders(res *Resource, b *bias) [][2]string {
	var out [][2]string
	seen := map[string]bool{}
	for _, p := range res.Plans {
		for _, f := range strings.Split(p.Vary, ",") {
			f = strings.TrimSpace(f)
			if f == "" || f == "*" || seen[f] {
				continue
			}
			seen[f] = true
			ms := selTable[f]
			if ms == nil {
				continue
			}
			// few meanings per run so that variants repeat: a window of three consecutive meanings of the
			// table, at an offset drawn once per run and field
			if g.selOff == nil {
				g.selOff = map[string]int{}
			}
			off, ok := g.selOff[f]
			if !ok {
				off = g.IntN(max(len(ms)-3, 0) + 1)
				if g.chance(50) {
					off = 0
				}
				g.selOff[f] = off
			}
			m := ms[off+g.IntN(min(len(ms)-off, 3))]
			if knownFindingValue[m[0]] && !b.kfValues {
				// the values behind the two known findings (known_findings.json) are sent in C04's own profile
				// only: elsewhere their side effects would be charged to other properties
				m = ms[0]
			}
			if f == "Authorization" && g.chance(50) {
				m = ms[2+g.IntN(4)]
			}
			if g.chance(15) {
				m = ms[len(ms)-1] // absent
			}
			v := m[0]
			if g.chance(b.pRespell) {
				v = m[g.IntN(len(m))]
			}
			if v != "" && !utf8.ValidString(v) {
				// scenarios are JSON: bytes that are not UTF-8 travel hex-encoded and are decoded when the request is built
				out = append(out, [2]string{f, "hex:" + hex.EncodeToString([]byte(v))})
			} else if v != "" {
				if parts := strings.Split(v, ","); len(parts) > 1 && g.chance(b.pMultiLine) {
					for _, pt := range parts { // the same list sent as several field lines
						out = append(out, [2]string{f, strings.TrimSpace(pt)})
					}
				} else {
					out = append(out, [2]string{f, v})
				}
			}
		}
	}
	if len(out) == 0 && g.chance(b.pSelHdr/3) {
		out = append(out, [2]string{"X-A", pick(g, "1", "2")})
	}
	return out
}

func (g *gen) think(b *bias, res *Resource) int64 {
	if len(b.thinks) > 0 {
		return g.dur(pick(g, b.thinks...))
	}
	if !g.chance(b.thinkFocus) {
		return g.dur(pick(g, int64(0), 0, 1, 2, 10, 100, 3600, 86400, 1<<31))
	}
	// boundaries that follow from what the scenario scripted for this resource
	var cands []int64
	for _, p := range res.Plans {
		cc := parseCCString(p.CC)
		life := int64(-1)
		if lo, _, pr, ok := cc.delta("max-age"); pr && ok && lo < 1<<31 {
			life = lo
		} else if p.ExpMode == "rel" {
			life = max(p.ExpDelta, 0)
		}
		if life < 0 {
			life = pick(g, b.lifetimes...)
		}
		cands = append(cands, life-1, life, life+1, life/2)
		if lat := p.LatNs / int64(time.Second); lat >= 2 {
			// a slow origin: the response delay counts towards the age once; the last seconds of freshness
			// are where counting it twice, or not at all, shows
			cands = append(cands, life-lat-2, life-2*lat+1, life-lat+1)
		}
		for _, k := range []string{"stale-while-revalidate", "stale-if-error"} {
			if lo, _, pr, ok := cc.delta(k); pr && ok {
				cands = append(cands, life+lo-1, life+lo, life+lo+1, life+lo/2)
			}
		}
	}
	c := pick(g, cands...)
	if c < 0 {
		c = 0
	}
	d := c * int64(time.Second)
	if g.jitter {
		d += pick(g, int64(-1), 0, 1, int64(-time.Second), int64(time.Second), int64(g.IntN(1_000_000_000)))
		if d < 0 {
			d = 0
		}
	}
	return d
}

func parseCCString(s string) ccMap {
	return parseCC(map[string][]string{"Cache-Control": {s}})
}

func (g *gen) op(b *bias, scn *Scenario) Op {
	ri := 0
	if len(scn.Resources) > 1 && g.chance(35) {
		ri = g.IntN(len(scn.Resources))
	}
	res := &scn.Resources[ri]
	o := Op{Res: ri, ThinkNs: g.think(b, res)}
	switch {
	case g.chance(b.pUnsafe):
		o.Method = pick(g, unsafeMethods...)
	case g.chance(b.pOtherMeth):
		o.Method = pick(g, otherMethods...)
	}
	if g.chance(b.pRespell) {
		o.Spelling = g.IntN(len(spellings))
	}
	if g.chance(b.pReqCC) {
		o.CC = pick(g, b.reqCCs...)
		if g.chance(15) {
			// a second directive, never the same one twice (what a repeated directive means is not defined)
			extra := pick(g, b.reqCCs...)
			dup := false
			for _, a := range splitList(o.CC) {
				for _, b2 := range splitList(extra) {
					if strings.SplitN(a, "=", 2)[0] == strings.SplitN(b2, "=", 2)[0] {
						dup = true
					}
				}
			}
			if !dup {
				o.CC += ", " + extra
			}
		}
	}
	if o.CC != "" && g.chance(12) {
		o.CCStyle = pick(g, "lines", "case", "quoted")
	}
	o.EmptyMethod = o.Method == "" && g.chance(6)
	if o.Method == "" && g.chance(b.pOddURL) {
		o.OddURL = pick(g, "relative", "zone", "nohost", "spacehost", "opaque", "upper", "emptyurl")
	}
	o.Hdr = g.selHeaders(res, b)
	o.Range = g.chance(b.pRange)
	if g.chance(b.pCond) {
		o.Cond = pick(g, "inm-current", "inm-bogus", "ims")
	}
	if g.chance(b.pCancel) {
		o.CancelNs = pick(g, int64(-1), g.dur(1), g.dur(2), g.dur(6))
	}
	if g.chance(b.pPartial) {
		o.Read = pick(g, "partial", "close")
	}
	o.Poison = g.chance(b.pPoison)
	if g.chance(b.pRestart) {
		o.Admin = "restart"
	}
	if g.chance(b.pCorrupt) {
		o.Admin, o.AdminArg = "corrupt", g.IntN(100000)
	}
	if g.chance(b.pClockStep) {
		// the wall clock is set back or forwards between two requests (seconds)
		o.Admin, o.AdminArg = "clock-step", pick(g, -86400, -3600, -61, -5, -1, 1, 30, 3600)
	}
	return o
}

func (g *gen) base(profile string, seed uint64, b *bias) *Scenario {
	scn := &Scenario{Profile: profile, Seed: seed, Engine: "tsim"}
	scn.Jitter = g.chance(30)
	g.jitter = scn.Jitter
	scn.Backend = pick(g, b.backends...)
	if scn.Backend == "fsenc" {
		scn.EncVia = pick(g, "option", "dsn", "env")
	}
	if scn.Backend != "mem" {
		scn.FsMTime = g.chance(30)
	}
	scn.Logger = pick(g, b.loggers...)
	if t := pick(g, b.swrTimeouts...); t != -1 {
		scn.SWRSet, scn.SWRNs = true, t
	}
	if g.chance(b.pStoreLat) {
		scn.StoreLat = g.dur(pick(g, int64(1), 1, 2))
		if g.chance(30) {
			scn.StoreLat = int64(pick(g, 1, 1000, 1000000))
		}
	}
	if scn.Backend != "mem" && g.chance(30) {
		scn.WChunk = pick(g, 1, 7, 64, 512)
		scn.RChunk = pick(g, 0, 1, 13, 100)
	}
	scn.Sched = kit.Sched{Strategy: pick(g, b.sched...), P: pick(g, 50, 80, 95), StallPct: 0}
	if b.stallPct > 0 && g.chance(50) {
		scn.Sched.StallPct = b.stallPct
		scn.Sched.StallNs = []int64{int64(time.Millisecond), int64(time.Second), int64(3 * time.Second), int64(10 * time.Second)}
	}
	scn.SchedSeed = g.Uint64()
	scn.Pair = b.pair
	nr := b.resources[0] + g.IntN(b.resources[1]-b.resources[0]+1)
	for i := 0; i < nr; i++ {
		scn.Resources = append(scn.Resources, g.resource(b, i, nr))
	}
	nc := b.clients[0] + g.IntN(b.clients[1]-b.clients[0]+1)
	for c := 0; c < nc; c++ {
		var cl Client
		no := b.ops[0] + g.IntN(b.ops[1]-b.ops[0]+1)
		for k := 0; k < no; k++ {
			cl.Ops = append(cl.Ops, g.op(b, scn))
			if o := &cl.Ops[k]; k > 0 && o.Admin == "" && g.chance(b.pReuse) {
				// a polling loop: the very request value of an earlier operation is sent again
				for j := k - 1; j >= 0; j-- {
					if p := cl.Ops[j]; p.Admin == "" && p.Cond == "" && p.CancelNs == 0 && !p.Poison {
						own := o.Hdr
						o.Method, o.Res, o.Spelling, o.CC, o.CCStyle, o.Hdr, o.Range = p.Method, p.Res, p.Spelling, p.CC, p.CCStyle, p.Hdr, p.Range
						o.Cond, o.CancelNs, o.Poison, o.Reuse, o.EmptyMethod = "", 0, false, true, p.EmptyMethod
						if g.chance(b.pReuseChange) {
							// ... after changing the selecting header fields of that value in place
							o.Hdr = g.selHeaders(&scn.Resources[o.Res], b)
							if len(o.Hdr) == 0 {
								o.Hdr = own
							}
						}
						break
					}
				}
			}
		}
		scn.Clients = append(scn.Clients, cl)
	}
	if b.crashy {
		n := 1 + g.IntN(2)
		for i := 0; i < n; i++ {
			k := pick(g, "write", "write", "write", "sync", "create", "close", "rename")
			f := DiskFault{OpKind: k, Nth: g.IntN(8), Errno: pick(g, "ENOSPC", "EIO", "CRASH", "CRASH")}
			f.Arg, f.Permille = g.IntN(1001), true
			scn.DiskFaults = append(scn.DiskFaults, f)
		}
		var c2 Client
		for k := 0; k < 2*len(scn.Resources); k++ {
			c2.Ops = append(c2.Ops, Op{Res: k % len(scn.Resources), Hdr: g.selHeaders(&scn.Resources[k%len(scn.Resources)], b), ThinkNs: g.dur(1)})
		}
		scn.Clients2 = []Client{c2}
	}
	if !b.faultFree {
		n := g.IntN(b.storeFaults + 1)
		for i := 0; i < n; i++ {
			k := pick(g, "get", "get", "set", "delete", "any")
			if b.readFaultsOnly {
				k = pick(g, "get", "get", "delete") // ... and deletes the store refuses
			}
			f := StoreFault{OpKind: k, Nth: g.IntN(12), Arg: g.IntN(5000)}
			switch k {
			case "get":
				f.Kind = pick(g, "err", "timeout", "notexist", "trunc", "flip", "corpus", "corpus", "foreign")
				if b.readFaultsOnly {
					f.Kind = pick(g, "err", "timeout")
				}
			case "set":
				f.Kind = pick(g, "err", "timeout", "err-applied")
			case "delete":
				f.Kind = pick(g, "err", "timeout")
				if b.readFaultsOnly {
					f.Nth = g.IntN(4)
				}
			default:
				f.Kind = pick(g, "err", "timeout", "corpus", "trunc")
			}
			scn.StoreFaults = append(scn.StoreFaults, f)
		}
		if scn.Backend != "mem" {
			n = g.IntN(b.diskFaults + 1)
			for i := 0; i < n; i++ {
				k := pick(g, "write", "write", "sync", "open", "create", "read", "mkdir", "close")
				f := DiskFault{OpKind: k, Nth: g.IntN(10), Errno: pick(g, "ENOSPC", "EIO", "EDQUOT", "EMFILE")}
				if k == "write" {
					f.Arg, f.Permille = g.IntN(1001), true
				}
				scn.DiskFaults = append(scn.DiskFaults, f)
			}
		}
	}
	return scn
}

// Profiles: name -> bias tweak.
func swrvaryProfile(b *bias, g *gen) {
	// C08: a variant stored by another request while a background revalidation waits for the origin
	b.pSWR, b.pValidator, b.pLatency, b.pVary, b.pVaryFlip, b.pVaryStar = 80, 90, 70, 100, 0, 0
	b.lifetimes = []int64{2, 2, 300, 300}
	b.freshKinds = []int{10, 0, 0, 0}
	b.pNoCache, b.pNoStore, b.pMustReval, b.pReqCC, b.pNoCacheQ, b.pErrStatus = 0, 0, 0, 0, 0, 0
	b.resources, b.ops, b.plans = [2]int{1, 1}, [2]int{5, 10}, [2]int{2, 3}
	b.thinkFocus, b.pSelHdr, b.pRespell = 0, 100, 10
	b.thinks = []int64{0, 1, 1, 3, 3, 6}
	b.backends = []string{"mem", "mem", "fs"}
	b.swrTimeouts = []int64{-1, int64(60 * time.Second)}
}

var profiles = map[string]func(b *bias, g *gen){
	"fresh": func(b *bias, g *gen) {
		b.pNoCache, b.pNoStore, b.pNoCacheQ, b.pMustReval = 1, 1, 0, 3
		b.pAgeHdr, b.pDateOdd, b.pHuge, b.pLatency = 35, 25, 8, 40
		b.freshKinds = []int{5, 3, 4, 1}
		b.reqCCs = []string{"max-stale", "max-stale=2", "max-stale=10", "min-fresh=2", "max-age=5", "max-age=60", "only-if-cached"}
		b.pReqCC, b.pVary, b.pVaryStar = 25, 5, 0
		b.ops = [2]int{3, 12}
	},
	"valid": func(b *bias, g *gen) {
		b.pNoCache, b.pNoCacheQ, b.pMustReval, b.pImmutable, b.pSWR, b.pSIE = 25, 12, 30, 15, 30, 25
		b.reqCCs = []string{"no-cache", "max-age=0", "max-age=1", "max-age=5", "max-stale", "max-stale=100", "min-fresh=2", "only-if-cached", "stale-if-error=10"}
		b.pReqCC, b.pValidator, b.pErrStatus, b.pNetFault = 45, 85, 12, 8
		b.pVary, b.pVaryStar = 5, 1
		b.pDateOdd = 20 // among others: a 304 without Date for a response that had one
	},
	"vary": func(b *bias, g *gen) {
		b.kfValues = true
		b.pVary, b.pVaryStar, b.pVaryFlip, b.pSelHdr = 90, 6, 25, 90
		b.resources, b.ops = [2]int{1, 1}, [2]int{5, 16}
		b.lifetimes = []int64{60, 300, 300, 5}
		b.pNoCache, b.pNoStore, b.pMustReval = 2, 1, 3
		b.clients = [2]int{1, 2}
	},
	"fidelity": func(b *bias, g *gen) {
		b.pFraming, b.pHop, b.pBigBody = 70, 50, 40
		b.pNetFault = 10 // a message cut short on the wire must not reach the caller as a complete one
		b.lifetimes = []int64{60, 300}
		b.pNoCache, b.pNoStore, b.pVary = 3, 2, 10
		b.backends = []string{"mem", "fs", "fsenc"}
		b.statuses = []int{200, 200, 200, 203, 404, 410, 301, 204}
	},
	"store": func(b *bias, g *gen) {
		b.statuses = []int{200, 200, 200, 206, 304, 204, 301, 302, 307, 404, 410, 500, 503, 299, 599, 101, 103, 418, 451, 226}
		b.pNoStore, b.pRange, b.pCond, b.pOtherMeth, b.pUnsafe, b.pNetFault = 15, 12, 15, 10, 8, 15
		b.reqCCs = append(b.reqCCs, "no-store", "no-store")
		b.freshKinds = []int{4, 2, 2, 4}
	},
	"inval": func(b *bias, g *gen) {
		b.pUnsafe, b.pLoc, b.resources = 25, 60, [2]int{2, 3}
		b.pVary, b.pSelHdr = 35, 60
		b.lifetimes = []int64{60, 300, 3600}
		b.pNoCache, b.pNoStore, b.pMustReval, b.pErrStatus = 1, 1, 2, 10
		b.clients = [2]int{1, 2}
		b.statuses = []int{200, 200, 200, 201, 204, 303, 404}
		if g.chance(35) {
			// a transient read error of the store while the unsafe request is handled must not save the entry
			b.faultFree, b.readFaultsOnly, b.storeFaults, b.diskFaults = false, true, 2, 0
		}
	},
	"invalswr": func(b *bias, g *gen) {
		// C07: validations (foreground, and background ones under stale-while-revalidate) whose answer is still on
		// its way while an unsafe request for the same URI completes: a 304 that arrives afterwards must not bring
		// the invalidated response back
		b.pUnsafe, b.pLoc, b.resources = 25, 20, [2]int{1, 2}
		b.lifetimes = []int64{1, 2, 300}
		b.freshKinds = []int{9, 1, 0, 0}
		b.pSWR, b.pValidator, b.pLatency, b.pNo304, b.pChange = 60, 100, 70, 0, 10
		b.pNoCache, b.pNoStore, b.pMustReval, b.pErrStatus, b.pReqCC = 10, 0, 5, 0, 15
		b.reqCCs = []string{"no-cache", "max-age=0"}
		b.clients, b.ops = [2]int{2, 3}, [2]int{3, 8}
		b.statuses = []int{200}
		b.thinks = []int64{0, 0, 1, 2, 3}
	},
	"writeback": func(b *bias, g *gen) {
		b.pMultiField = 40
		b.pBare304 = 25
		b.lifetimes = []int64{1, 2, 5, 10}
		b.pValidator, b.pChange, b.pSWR, b.pVary, b.pVaryFlip, b.pNo304 = 95, 35, 35, 45, 3, 5
		b.pNoCache, b.pNoStore, b.pReqCC, b.pMustReval = 6, 1, 20, 12
		b.reqCCs = []string{"no-cache", "no-cache", "max-stale", "max-age=0", "max-stale=100"} // validations of entries that are still fresh
		b.resources, b.ops = [2]int{1, 1}, [2]int{5, 18}
		b.freshKinds = []int{8, 2, 0, 0}
		b.backends = []string{"mem", "mem", "fs"}
	},
	"wbfault": func(b *bias, g *gen) {
		// C08: one client, several variants, validations - and exactly one transient read error of the store
		// somewhere: whichever read it hits, no variant that is stored may be lost for it
		b.pMultiField = 20
		b.lifetimes = []int64{1, 2, 5, 300}
		b.pValidator, b.pChange, b.pSWR, b.pVary, b.pVaryFlip, b.pNo304, b.pSelHdr = 95, 35, 0, 100, 0, 15, 90
		b.pNoCache, b.pNoStore, b.pReqCC, b.pMustReval, b.pCancel, b.pUnsafe, b.pOtherMeth = 3, 0, 15, 5, 0, 0, 0
		b.reqCCs = []string{"no-cache", "max-age=0"}
		b.resources, b.clients, b.ops = [2]int{1, 1}, [2]int{1, 1}, [2]int{6, 16}
		b.freshKinds = []int{9, 1, 0, 0}
		b.backends = []string{"mem", "mem", "fs"}
		b.pNetFault, b.pErrStatus = 0, 0
	},
	"hits": func(b *bias, g *gen) {
		b.pLongURL, b.pMultiLine = 20, 20
		b.statuses = []int{200, 200, 203, 301, 308, 404, 405, 410, 414, 501}
		b.pErrStatus, b.pNoCache, b.pNoStore, b.pMustReval, b.pNoCacheQ = 0, 0, 0, 3, 0
		b.lifetimes = []int64{60, 300, 3600, 86400}
		b.freshKinds = []int{5, 3, 3, 0}
		b.pRespell, b.pSelHdr, b.pVary, b.pVaryStar, b.pVaryFlip = 60, 60, 40, 0, 0
		b.pReqCC, b.pRestart, b.pChange = 5, 12, 5
		b.thinkFocus = 30
		b.backends = []string{"mem", "fs", "fsenc"}
	},
	"faults": func(b *bias, g *gen) {
		b.faultFree, b.storeFaults, b.diskFaults = false, 3, 2
		b.pNetFault, b.pErrStatus, b.pCancel, b.pOddURL, b.pStall = 25, 15, 6, 4, 25
		b.ops = [2]int{2, 8}
		b.pSWR, b.pSIE, b.pValidator = 30, 20, 85
		b.lifetimes = []int64{0, 1, 2, 5, 60}
	},
	"swrvary": swrvaryProfile,

	"swrreuse": func(b *bias, g *gen) {
		// C04: a polling client changes the selecting fields of its one request value while a background
		// revalidation started with that value is still waiting for the origin
		swrvaryProfile(b, g)
		b.pValidator, b.pReuse, b.pReuseChange = 35, 50, 85
		b.thinks = []int64{0, 0, 1, 3, 6}
	},
	"swr": func(b *bias, g *gen) {
		b.pNoCacheQ = 20
		b.pSWR, b.pValidator, b.pLatency, b.pNetFault = 85, 80, 70, 20
		b.lifetimes = []int64{1, 2, 5}
		b.freshKinds = []int{9, 1, 0, 0}
		b.pNoCache, b.pNoStore, b.pMustReval, b.pReqCC, b.pCancel = 1, 1, 2, 8, 8
		b.backends = []string{"mem", "mem", "mem", "fs"}
		b.resources = [2]int{1, 1}
	},
	"swrflood": func(b *bias, g *gen) {
		// C20: many more stale serves in flight than any bound a transport may put on its background work, all
		// against an origin that has stopped answering: no caller may be the one that waits
		b.pSWR, b.pValidator, b.pVary = 100, 80, 0
		b.lifetimes = []int64{1}
		b.freshKinds = []int{9, 1, 0, 0}
		b.clients, b.ops = [2]int{1, 2}, [2]int{20, 45}
		b.pNoCache, b.pNoStore, b.pMustReval, b.pReqCC, b.pCancel, b.pUnsafe, b.pOtherMeth, b.pRange, b.pCond = 0, 0, 0, 0, 0, 0, 0, 0, 0
		b.pNetFault, b.pErrStatus, b.pNoCacheQ, b.pPartial, b.pPoison = 0, 0, 0, 0, 0
		b.backends = []string{"mem", "mem", "fs"}
		b.resources = [2]int{1, 2}
		b.thinks = []int64{0, 0, 0, 0, 1}
	},
	"varyflip": func(b *bias, g *gen) {
		// C08: several variants of one URI whose Vary changes between replies, validated again and again: a full
		// reply to a validation may land on the entry of another record of the index
		b.pVary, b.pVaryFlip, b.pVaryStar, b.pSelHdr = 100, 70, 2, 100
		b.varyFrom = []string{"X-A", "X-B", "X-A", "X-B", "X-A, X-B"}
		b.pValidator, b.pChange, b.pNo304, b.pSWR = 90, 40, 20, 25
		b.lifetimes = []int64{1, 2, 2, 300}
		b.freshKinds = []int{10, 0, 0, 0}
		b.pNoCache, b.pNoStore, b.pMustReval, b.pReqCC, b.pNoCacheQ, b.pErrStatus = 0, 0, 0, 30, 0, 0
		b.reqCCs = []string{"no-cache", "no-cache", "max-age=0"} // validations of entries that are still fresh, while their neighbours stay
		b.resources, b.clients, b.ops, b.plans = [2]int{1, 1}, [2]int{1, 1}, [2]int{10, 22}, [2]int{2, 4}
		b.thinkFocus = 0
		b.thinks = []int64{0, 1, 3, 3}
		b.backends = []string{"mem", "mem", "fs"}
	},
	"swrrace": func(b *bias, g *gen) {
		// overlapping background refreshes of one entry while the resource changes at the origin: a slow 304 for
		// the old representation arrives after a full reply with the new one has been stored
		b.pSWR, b.pValidator, b.pLatency, b.pChange, b.pNo304 = 100, 100, 90, 45, 10
		b.lifetimes = []int64{1, 2}
		b.freshKinds = []int{10, 0, 0, 0}
		b.pNoCache, b.pNoStore, b.pMustReval, b.pReqCC, b.pNoCacheQ, b.pErrStatus = 0, 0, 0, 0, 0, 0
		b.resources, b.clients, b.ops, b.plans = [2]int{1, 1}, [2]int{1, 2}, [2]int{4, 8}, [2]int{2, 3}
		b.thinkFocus = 0
		b.thinks = []int64{0, 0, 1, 2, 3}
		b.backends = []string{"mem", "mem", "fs"}
		b.swrTimeouts = []int64{-1, int64(60 * time.Second)}
	},
	"conc": func(b *bias, g *gen) {
		b.clients, b.ops = [2]int{2, 4}, [2]int{2, 7}
		b.pSWR, b.pPoison, b.pUnsafe, b.pVary = 50, 60, 8, 30
		b.lifetimes = []int64{0, 1, 2, 60}
		b.stallPct = 8
		b.resources = [2]int{1, 2}
	},
	"oic": func(b *bias, g *gen) {
		b.reqCCs = []string{"only-if-cached", "only-if-cached", "only-if-cached, max-stale", "only-if-cached, no-cache", "only-if-cached, max-age=0", "only-if-cached, min-fresh=5", "max-age=0", "only-if-cached, no-store", "no-store, only-if-cached"}
		b.pReqCC = 55
		b.pOtherMeth, b.pUnsafe, b.pRange = 8, 5, 8 // "under any circumstances": HEAD, unsafe methods and Range requests too
		b.pNoCache, b.pMustReval, b.pSWR, b.pVary = 25, 35, 30, 20
		b.lifetimes = []int64{0, 1, 2, 60}
		b.faultFree, b.storeFaults = false, 1
	},
	"oicstep": func(b *bias, g *gen) {
		// C18 under a wall clock that is stepped between requests (one client, nothing in the background): a stored
		// response may then look received in the future, or far older than it is - and still no only-if-cached
		// request may reach the network
		b.reqCCs = []string{"only-if-cached", "only-if-cached", "only-if-cached, max-stale", "only-if-cached, max-age=0", "only-if-cached, min-fresh=5"}
		b.pReqCC = 60
		b.pNoCache, b.pMustReval, b.pSWR, b.pVary, b.pCancel = 10, 25, 0, 15, 0
		b.lifetimes = []int64{1, 2, 60, 3600}
		b.clients, b.ops = [2]int{1, 1}, [2]int{4, 12}
		b.pClockStep = 25
	},
	"crashy": func(b *bias, g *gen) {
		// C15 (whole stack): write failures and kills while entries are stored, then a second incarnation reads
		b.backends = []string{"fs", "fs", "fsenc"}
		b.clients, b.ops, b.resources = [2]int{1, 2}, [2]int{2, 6}, [2]int{1, 2}
		b.lifetimes = []int64{300, 3600}
		b.freshKinds = []int{8, 2, 0, 0}
		b.pNoCache, b.pNoStore, b.pMustReval, b.pReqCC, b.pVary, b.pErrStatus = 0, 0, 0, 3, 10, 0
		b.thinkFocus, b.pBigBody = 10, 20
		b.crashy = true
	},
	"tamper": func(b *bias, g *gen) {
		// C17 (whole stack): at-rest modification of encrypted entries between requests
		b.backends = []string{"fsenc"}
		b.clients, b.ops, b.resources = [2]int{1, 1}, [2]int{4, 12}, [2]int{1, 2}
		b.lifetimes = []int64{300, 3600}
		b.freshKinds = []int{8, 2, 0, 0}
		b.pNoCache, b.pNoStore, b.pMustReval, b.pReqCC, b.pVary, b.pErrStatus = 0, 0, 0, 3, 10, 0
		b.thinkFocus = 10
		b.pCorrupt = 25
	},
	"race": func(b *bias, g *gen) {
		// C16 (c): pairwise-parallel release under the race detector
		b.clients, b.ops = [2]int{2, 4}, [2]int{2, 6}
		b.pSWR, b.pPoison, b.pUnsafe, b.pVary, b.pValidator = 70, 80, 8, 25, 90
		b.lifetimes = []int64{0, 1, 2}
		b.freshKinds = []int{9, 1, 0, 0}
		b.stallPct = 15
		b.resources = [2]int{1, 2}
		b.backends = []string{"mem", "mem", "fs"}
		b.pair = true
		b.pLatency = 60
	},
	"placement": func(b *bias, g *gen) {
		// short fault-free base histories for fault enumeration (C10)
		b.ops = [2]int{2, 8}
		b.pSWR, b.pSIE, b.pValidator, b.pVary = 35, 25, 85, 25
		b.lifetimes = []int64{0, 1, 2, 5, 60}
		b.pUnsafe, b.pReqCC, b.pOddURL = 8, 25, 3
		b.loggers = []string{"discard"}
		b.backends = []string{"mem"}
		b.sched = []string{"fifo", "random"}
		b.pStoreLat = 0
	},
	"sie": func(b *bias, g *gen) {
		b.pSIE, b.pErrStatus, b.pNetFault, b.pValidator, b.pStall = 60, 35, 20, 90, 25
		b.lifetimes = []int64{1, 2, 5}
		b.freshKinds = []int{9, 1, 0, 0}
		b.reqCCs = []string{"stale-if-error=5", "stale-if-error=60", "max-stale=1", "no-cache"}
		b.pReqCC, b.pMustReval, b.pNoCache, b.pSWR = 30, 12, 6, 5
		b.resources = [2]int{1, 1}
	},
}

func newRand(seed uint64) *rand.Rand { return rand.New(rand.NewPCG(seed, 0x5eed)) }

func Gen(profile string, seed uint64, thorough bool) *Scenario {
	switch profile {
	case "map", "atomic", "crypt", "recover":
		return genSsim(profile, seed, thorough)
	case "growth":
		return genGrowth(seed, thorough)
	}
	g := &gen{Rand: rand.New(rand.NewPCG(seed, 0x5eed))}
	b := defaultBias()
	if f := profiles[profile]; f != nil {
		f(&b, g)
	}
	if thorough {
		b.ops[1] = b.ops[1] * 2
		b.maxBody = 1 << 20
		if b.maxBody > 1<<16 && g.chance(90) {
			b.maxBody = 1 << 16
		}
	}
	scn := g.base(profile, seed, &b)
	scn.TZMin = pick(g, 0, 0, -300, 540, 345, -720)
	if profile == "placement" && g.chance(40) {
		// the upstream transport is net/http's with MaxConnsPerHost: a response the cache neither hands on nor
		// closes keeps its connection, and a later exchange waits for it
		scn.MaxConns = pick(g, 1, 1, 2)
	}
	if profile == "sie" {
		for i := range scn.Resources {
			for k := range scn.Resources[i].Plans {
				p := &scn.Resources[i].Plans[k]
				if (p.Status >= 500 || p.Fault == "err") && g.chance(50) {
					p.LatNs = g.dur(pick(g, int64(1), 2, 3, 5, 8)) // a failure that takes its time
				}
			}
		}
	}
	if profile == "inval" {
		// bodies that arrive slowly, so that a GET for one variant is still reading its reply while an unsafe
		// request that names the URI (target, Location, Content-Location) completes
		for i := range scn.Resources {
			for k := range scn.Resources[i].Plans {
				p := &scn.Resources[i].Plans[k]
				if p.Status == 200 && g.chance(40) {
					if len(p.Chunks) == 0 {
						p.Chunks = []int{1 + g.IntN(max(p.BodyLen, 8))}
					}
					p.ChunkLatNs = g.dur(pick(g, int64(1), 2, 3))
				}
			}
		}
	}
	if profile == "wbfault" {
		scn.StoreFaults = []StoreFault{{OpKind: "get", Nth: g.IntN(40), Kind: pick(g, "err", "timeout")}}
		scn.DiskFaults, scn.Clients2 = nil, nil
	}
	if profile == "swrflood" {
		for i := range scn.Resources {
			rs := &scn.Resources[i]
			for len(rs.Plans) < 2 {
				rs.Plans = append(rs.Plans, rs.Plans[0])
			}
			for k := range rs.Plans {
				p := &rs.Plans[k]
				p.Status, p.Fault, p.LatNs = 200, "", 0
				p.CC = "max-age=1, stale-while-revalidate=" + pick(g, "600", "3600")
				if k > 0 {
					// every answer after the first one is withheld for good, or far beyond the run
					if g.chance(50) {
						p.Fault = "hang"
					} else {
						p.LatNs = g.dur(pick(g, int64(120), 600))
					}
				}
			}
		}
		// the first request of every client fills the cache; the entry is stale before the second one
		for c := range scn.Clients {
			for k := range scn.Clients[c].Ops {
				o := &scn.Clients[c].Ops[k]
				if k == 1 {
					o.ThinkNs = max(o.ThinkNs, g.dur(3))
				}
			}
		}
		if g.chance(60) {
			scn.SWRSet, scn.SWRNs = true, g.dur(pick(g, int64(30), 60, 300)) // most of the revalidations are still waiting when the last request comes
		}
	}
	if profile == "swr" || profile == "sie" {
		// the origin withholds every background answer: latency on all plans
		for i := range scn.Resources {
			for k := range scn.Resources[i].Plans {
				p := &scn.Resources[i].Plans[k]
				if p.LatNs == 0 && profile == "swr" {
					p.LatNs = g.dur(pick(g, int64(1), 2, 4, 5, 6, 50))
				}
				if profile == "swr" && g.chance(25) {
					// latency exactly around the configured timeout
					T := int64(5 * time.Second)
					if scn.SWRSet && scn.SWRNs > 0 {
						T = scn.SWRNs
					}
					p.LatNs = max(1, T+pick(g, int64(-1), 0, 1, -int64(time.Second), int64(time.Second), 9*T))
				}
			}
		}
	}
	return scn
}
