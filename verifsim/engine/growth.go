package engine

import (
	"encoding/hex"
	"fmt"
	"math/rand/v2"
	"sort"
	"strings"
	"time"
	"unicode/utf8"

	"github.com/bartventer/httpcache/verifsim/kit"
)

// genGrowth: a finite request alphabet (≤4 URIs × ≤4 header combinations,
// optionally an unsafe method) repeated for 8N requests, against origins that
// use Vary (incl. "*" and changing sets), validation, stale-while-revalidate
// and short lifetimes, with checkpoints at N, 2N, 4N, 8N.
func genGrowth(seed uint64, thorough bool) *Scenario {
	g := &gen{Rand: rand.New(rand.NewPCG(seed, 0x960))}
	scn := &Scenario{Profile: "growth", Seed: seed, Engine: "tsim", Logger: "discard", Backend: pick(g, "mem", "mem", "mem", "fs")}
	scn.Sched = kit.Sched{Strategy: "fifo"}
	scn.SchedSeed = g.Uint64()
	N := 40
	if thorough {
		N = pick(g, 100, 150, 250) // (8N requests per run; the watchdog allows a worker twice its budget)
		if scn.Backend == "fs" {
			N = 100
		}
	}
	U := 1 + g.IntN(4)
	purge := g.chance(35)
	for i := 0; i < U; i++ {
		res := Resource{Host: "a.test", Path: fmt.Sprintf("/r%d/p%%2Fq~z", i), LMBase: 1000}
		vary := pick(g, "", "X-A", "X-A, X-B", "Accept-Encoding", "*", "X-Tenant")
		if g.chance(25) {
			// a query with a raw byte that is not UTF-8 (net/url accepts it): it ends up in every key of the URI
			res.Query = pick(g, "q={FF}", "n=caf{E9}&x=1", "{C3}{28}")
		}
		if purge && vary == "*" {
			vary = "X-A"
		}
		np := 1 + g.IntN(3)
		for k := 0; k < np; k++ {
			v := vary
			if !purge && g.chance(15) {
				v = pick(g, "", "X-A", "X-B", "*", "X-A, X-B")
			}
			p := RespPlan{Status: 200, ETag: "strong", BodyLen: pick(g, 40, 100), Vary: v, Change: g.chance(30)}
			cc := []string{"max-age=" + pick(g, "1", "2", "3", "5", "60")}
			if g.chance(40) {
				cc = append(cc, "stale-while-revalidate="+pick(g, "2", "5", "30"))
			}
			if g.chance(10) {
				cc = append(cc, "must-revalidate")
			}
			p.CC = strings.Join(cc, ", ")
			if U > 1 && g.chance(35) {
				// replies (also those to the unsafe requests of the cycle) name another URI of the cycle
				if g.chance(50) {
					p.Loc, p.LocRes = pick(g, "rel", "abs"), (i+1+g.IntN(U-1))%U
				} else {
					p.CLoc, p.CLocRes = pick(g, "rel", "abs"), (i+1+g.IntN(U-1))%U
				}
			}
			res.Plans = append(res.Plans, p)
		}
		scn.Resources = append(scn.Resources, res)
	}
	// the alphabet
	type letter struct {
		res    int
		hdr    [][2]string
		method string
	}
	var alpha []letter
	for i := 0; i < U; i++ {
		nc := 1 + g.IntN(4)
		for c := 0; c < nc; c++ {
			var h [][2]string
			for _, f := range []string{"X-A", "X-B", "Accept-Encoding", "X-Tenant"} {
				if g.chance(50) {
					ms := selTable[f]
					v := ms[g.IntN(min(3, len(ms)-1))][0]
					if !utf8.ValidString(v) {
						v = "hex:" + hex.EncodeToString([]byte(v)) // see selHeaders
					}
					h = append(h, [2]string{f, v})
				}
			}
			alpha = append(alpha, letter{res: i, hdr: h})
		}
		if !purge && g.chance(20) {
			alpha = append(alpha, letter{res: i, method: "POST"})
		}
	}
	var cl Client
	for n := 0; n < 8*N; n++ {
		l := alpha[n%len(alpha)]
		if g.chance(10) {
			l = alpha[g.IntN(len(alpha))]
		}
		cl.Ops = append(cl.Ops, Op{Res: l.res, Hdr: l.hdr, Method: l.method, ThinkNs: int64(pick(g, 0, 1, 1, 2, 3, 7)) * int64(time.Second)})
	}
	scn.Checkpoints = []int{N, 2 * N, 4 * N, 8 * N}
	if purge {
		// let background work finish, then invalidate every URI of the cycle - in some runs after an entry or two
		// were removed from the store by someone else, so that an index names entries that are gone
		if g.chance(40) {
			for i, n := 0, 1+g.IntN(2); i < n; i++ {
				cl.Ops = append(cl.Ops, Op{Admin: "evict", AdminArg: g.IntN(1 << 20), ThinkNs: int64(time.Hour)})
			}
		}
		for i := 0; i < U; i++ {
			cl.Ops = append(cl.Ops, Op{Res: i, Method: "POST", ThinkNs: int64(time.Hour)})
		}
		scn.FinalPurge = true
	}
	scn.Clients = []Client{cl}
	return scn
}

func judgeGrowth(r *Run, j *Judged) {
	if len(r.Growth) < 4 || !r.faultFree() {
		return
	}
	// V: distinct (URI, Vary field set, nominated values) combinations the origin answered
	combos := map[string]bool{}
	perRes := map[int]map[string]bool{}
	for _, o := range r.OResps {
		if o.Is304 {
			continue
		}
		fs, star := varyFields(o.Header)
		k := fmt.Sprintf("%d|%v|%v|", o.Res, fs, star)
		for _, f := range fs {
			k += f + "=" + strings.Join(o.Req.Header.Values(f), ",") + ";"
		}
		combos[k] = true
		if perRes[o.Res] == nil {
			perRes[o.Res] = map[string]bool{}
		}
		perRes[o.Res][k] = true
	}
	V, U := len(combos), len(r.Scn.Resources)
	g2, g8 := r.Growth[1], r.Growth[3]
	j.count("C19", "keys-unbounded")
	if g8.Keys > 2*(U+V) && g8.Keys > g2.Keys+V {
		j.fail("C19", "keys-unbounded", nil, "", "live keys: %d after %d requests, %d after %d requests, with %d URIs and %d distinct variants answered by the origin", g2.Keys, g2.N, g8.Keys, g8.N, U, V)
	}
	j.count("C19", "value-unbounded")
	keys := make([]string, 0, len(g8.Index))
	for k := range g8.Index {
		keys = append(keys, k)
	}
	sort.Strings(keys)
	for _, k := range keys {
		s8, s2 := g8.Index[k], g2.Index[k]
		vu := 0
		for ri := range r.Scn.Resources {
			if strings.Contains(k, fmt.Sprintf("/r%d/", ri)) {
				vu = len(perRes[ri])
			}
		}
		if s8 > 4096*(vu+1) && s2 > 0 && s8 >= 2*s2 {
			sig := ""
			for ri, rs := range r.Scn.Resources {
				if strings.Contains(k, fmt.Sprintf("/r%d/", ri)) {
					for _, p := range rs.Plans {
						if strings.Contains(p.Vary, "*") {
							sig = "vary-star"
						}
					}
				}
			}
			j.fail("C19", "value-unbounded", nil, sig, "index stored under %q grew from %d bytes after %d requests to %d bytes after %d requests although only %d distinct variants exist for that URI", k, s2, g2.N, s8, g8.N, vu)
			break
		}
	}
	// every stored entry is reachable from its URI's index (an unreachable one can never be invalidated or reused)
	if !r.Sim.Hung {
		j.count("C19", "orphan-entry")
		r.mu.Lock()
		var orphans []string
		for k := range r.Live {
			i := strings.LastIndex(k, "#")
			if i < 0 {
				continue
			}
			// (only for URIs whose Vary never changes: replacing a record by one with another Vary leaves the
			// replaced variant's entry behind, which is bounded by the number of variants and not an invalidation matter)
			stable := false
			for ri := range r.Scn.Resources {
				if strings.Contains(k, fmt.Sprintf("/r%d/", ri)) {
					_, stable = r.varyStable(ri)
				}
			}
			idx, ok := r.Live[k[:i]]
			if stable && (!ok || !strings.Contains(string(idx), jsonEsc(k))) {
				orphans = append(orphans, k)
			}
		}
		r.mu.Unlock()
		sort.Strings(orphans)
		if len(orphans) > 0 {
			j.fail("C19", "orphan-entry", nil, "", "%d stored entr(ies) are referenced by no index at the end of the history, e.g. %q", len(orphans), orphans[0])
		}
	}
	if r.Scn.FinalPurge && !r.Sim.Hung {
		j.count("C19", "invalidation-leak")
		r.mu.Lock()
		n := len(r.Live)
		var some []string
		for k := range r.Live {
			some = append(some, k)
		}
		r.mu.Unlock()
		sort.Strings(some)
		if n > 0 {
			if len(some) > 4 {
				some = some[:4]
			}
			j.fail("C19", "invalidation-leak", nil, "", "after an unsafe request to every URI of the cycle (nothing in flight) the store still holds %d key(s), e.g. %q", n, some)
		}
	}
}
