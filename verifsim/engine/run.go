package engine

import (
	"bytes"
	"context"
	"crypto/sha256"
	"encoding/base64"
	"encoding/hex"
	"errors"
	"fmt"
	"github.com/bartventer/httpcache/verifsim/simclock"
	"io"
	"log/slog"
	"net/http"
	"net/url"
	"path"
	"reflect"
	"regexp"
	"runtime"
	"runtime/debug"
	"sort"
	"strconv"
	"strings"
	"sync"
	"syscall"
	"time"

	"github.com/bartventer/httpcache"
	"github.com/bartventer/httpcache/store"
	"github.com/bartventer/httpcache/store/driver"
	"github.com/bartventer/httpcache/store/fscache"
	_ "github.com/bartventer/httpcache/store/memcache"
	"github.com/bartventer/httpcache/verifsim/kit"
	"github.com/bartventer/httpcache/verifsim/simgo"
	"github.com/bartventer/httpcache/verifsim/simos"
	"github.com/bartventer/httpcache/verifsim/simrand"
	"github.com/bartventer/httpcache/verifsim/simsync"
)

// ---------------- recorded history ----------------

type ReqSnap struct {
	Method    string
	RawMethod string // as the field stands in the caller's value ("" is a legal spelling of GET)
	URL       string
	Host      string
	Header    http.Header
	Ctx       context.Context
	HdrPtr    uintptr
}

// OResp is one response produced by the simulated origin.
type OResp struct {
	SID       int
	Call      *UpCall
	Res       int
	PlanIdx   int
	Plan      *RespPlan
	Req       ReqSnap // what the origin saw
	Status    int
	Header    http.Header // as sent (incl. hop-by-hop)
	Body      []byte
	Is304     bool
	Bare      bool          // a minimal 304: Date and validators only, no provenance marker
	TStart    time.Duration // upstream call entered
	TResp     time.Duration // header handed to the cache
	Complete  bool          // the wire delivers the whole body (no fault)
	Delivered bool          // ... and the reader has in fact been handed every byte
	SeqResp   uint64
	Version   int
	VarKey    string
}

// UpCall is one call of the upstream RoundTripper.
type UpCall struct {
	ID           int
	Gor          string
	Owner        string
	OwnerOp      int
	Fg           bool // on the client's own goroutine
	VerAt        int  // the resource's version and modification time when the request reached the origin
	LMAt         time.Duration
	SeqStart     uint64
	SeqEnd       uint64
	TStart       time.Duration
	TEnd         time.Duration
	Req          ReqSnap
	Res          int
	Resp         *OResp
	ErrKind      string        // "" | "err" | "hang-cancel" | "ctx" | "reset-header" | "abort"
	BodyCancelAt time.Duration // >0: virtual time+1ns at which a read of the response body found the request context ended
	CancelAt     time.Duration
	HadDeadline  bool
	Deadline     time.Duration
	Ended        bool
	ConnWait     bool // had to wait for a connection of the bounded pool (Scenario.MaxConns)
	GotConn      bool
}

type StoreOp struct {
	Idx      int
	Seq      uint64
	SeqRet   uint64
	T        time.Duration
	Kind     string
	Key      string
	Val      []byte // value passed to Set / returned by Get (after mutation)
	SIDs     []int  // origin responses recognisable inside the value
	IsIndex  bool
	Fault    string
	Err      string
	NotExist bool
	Applied  bool
	Gor      string
	Owner    string
	OwnerOp  int
	Fg       bool
}

// Exch is one client operation (one RoundTrip).
type Exch struct {
	Client   int
	OpIdx    int
	Op       *Op
	Name     string
	SeqInv   uint64
	SeqRet   uint64
	TInv     time.Duration
	TRet     time.Duration
	TRetRaw  time.Duration
	Req      ReqSnap
	ReqAfter ReqSnap
	Returned bool
	Panic    string
	Err      string
	ErrCtx   bool
	NilNil   bool
	Both     bool
	Status   int
	Header   http.Header // snapshot at return
	HdrLive  http.Header // the live map (for mutation checks)
	Body     []byte
	BodyErr  string
	BodyRead bool
	Proto    string
	Calls    []*UpCall
	Store    []*StoreOp
	Epoch    int
	Poisons  []string
	RespPtr  *http.Response
	HdrFinal http.Header // snapshot when the caller was done with the response (after its own poison)
	HdrEnd   http.Header // the same map at the end of the run
}

type Run struct {
	Scn *Scenario
	Sim *kit.Sim

	mu          sync.Mutex
	Exchs       []*Exch
	Calls       []*UpCall
	OResps      []*OResp
	Store       []*StoreOp
	resCnt      []int
	resVer      []int
	resLM       []time.Duration
	sidNext     int
	kindCnt     map[string]int
	diskCnt     map[string]int
	Live        map[string][]byte // model of the store contents as seen at the Conn seam
	Faults      map[string]int    // fired fault kinds
	Probes      map[string]int
	clientsDone int
	cur         map[string]*Exch // client name -> exchange in progress
	rt          http.RoundTripper
	inner       driver.Conn
	logBuf      *bytes.Buffer
	LeakStacks  []string
	Deadlock    string
	Crashes     int
	Restarts    int
	VirtSpan    time.Duration
	encKey      string
	diskPlain   [][]byte
	PlainHits   []string
	plainWatch  bool
	// cipherSeen: path -> digest of the last full content written to that path by an encrypting backend
	// (temporary files keep their entry after being renamed, so every completed write is remembered)
	cipherSeen map[string][32]byte
	// store-level runs: phase currently executing, and whether an injected disk fault fired in the second one
	curPhase      int
	reqReuse      map[string]*reuseSlot
	conns         []*connSlot       // connections of the bounded pool in use
	connFree      chan struct{}     // closed (and replaced) whenever a connection is given back
	stallSID      map[int]bool      // responses whose body stalls for ever: their reader only closes them
	exchIdx       map[exchKey]*Exch // (client name, operation index) -> its latest exchange
	judging       bool
	lineageEnd    map[*UpCall]uint64 // memo of lastSeqOfLineage (history is immutable once judging starts)
	preCorrupt    map[string][]byte  // file content before the harness first modified it at rest (until the backend rewrites it)
	faultInPhase2 bool
	OpenErr       string
	DiskEnd       map[string][]byte
	sconn         driver.Conn
	SHists        []*SHist
	Inconclusive  int
	Corrupted     []corruptRec
	exchDone      int
	Growth        []GrowthPoint
}

// GrowthPoint is the store footprint after N completed exchanges.
type GrowthPoint struct {
	N        int
	Keys     int
	MaxIndex int
	Index    map[string]int
	Bytes    int
}

type corruptRec struct {
	Path string
	Key  string
	Seq  uint64
}

// ---------------- the sim:// store driver ----------------

var (
	curRun   *Run
	curRunMu sync.Mutex
	regOnce  sync.Once
)

func curRunOrNil() *Run {
	curRunMu.Lock()
	defer curRunMu.Unlock()
	return curRun
}

func registerDriver() {
	regOnce.Do(func() {
		store.Register("sim", driver.DriverFunc(func(u *url.URL) (driver.Conn, error) {
			curRunMu.Lock()
			r := curRun
			curRunMu.Unlock()
			if r == nil {
				return nil, errors.New("sim: no run")
			}
			inner, err := r.openInner()
			if err != nil {
				return nil, err
			}
			r.inner = inner
			return &simConn{r: r, inner: inner}, nil
		}))
	})
}

const simKeyB64 = "MDEyMzQ1Njc4OWFiY2RlZjAxMjM0NTY3ODlhYmNkZWY=" // 32 bytes, base64url

func (r *Run) openInner() (driver.Conn, error) {
	switch r.Scn.Backend {
	case "mem", "":
		return store.Open("memcache://")
	case "fs":
		return store.Open("fscache:///simcache?appname=app" + r.fsTimeoutParam())
	case "fsenc":
		switch r.Scn.EncVia {
		case "option":
			return fscache.Open("app", fscache.WithBaseDir("/simcache"), fscache.WithEncryption(simKeyB64), fscache.WithUpdateMTime(r.Scn.FsMTime))
		case "env":
			simos.Setenv("FSCACHE_ENCRYPT_KEY", simKeyB64)
			defer simos.Unsetenv("FSCACHE_ENCRYPT_KEY")
			return store.Open("fscache:///simcache?appname=app&encrypt=on" + r.fsTimeoutParam())
		default:
			return store.Open("fscache:///simcache?appname=app&encrypt=aesgcm&encrypt_key=" + simKeyB64 + r.fsTimeoutParam())
		}
	}
	return nil, fmt.Errorf("sim: unknown backend %q", r.Scn.Backend)
}

type simConn struct {
	r     *Run
	inner driver.Conn
}

var tokRe = regexp.MustCompile(`<<S(\d{8}) L\d{8} C[0-9a-f]{8}>>`)
var seqRe = regexp.MustCompile(`(?i)X-Sim-Seq: (\d+)`)
var bodyHdrRe = regexp.MustCompile(`(?i)X-Sim-Body: (\d+)`)

func scanSIDs(v []byte) []int {
	seen := map[int]bool{}
	var out []int
	// (three passes over a value of up to a megabyte: tell the watchdog that this is the harness at work)
	kit.Beat.Add(1)
	defer kit.Beat.Add(1)
	for _, m := range tokRe.FindAllSubmatch(v, -1) {
		n, _ := strconv.Atoi(string(m[1]))
		if !seen[n] {
			seen[n] = true
			out = append(out, n)
		}
	}
	kit.Beat.Add(1)
	for _, m := range bodyHdrRe.FindAllSubmatch(v, -1) {
		n, _ := strconv.Atoi(string(m[1]))
		if !seen[n] {
			seen[n] = true
			out = append(out, n)
		}
	}
	kit.Beat.Add(1)
	for _, m := range seqRe.FindAllSubmatch(v, -1) {
		n, _ := strconv.Atoi(string(m[1]))
		if !seen[n] {
			seen[n] = true
			out = append(out, n)
		}
	}
	sort.Ints(out)
	return out
}

func digest(b []byte) string {
	h := sha256.Sum256(b)
	return hex.EncodeToString(h[:6])
}

func looksIndex(key string, v []byte) bool {
	t := bytes.TrimSpace(v)
	return !strings.Contains(key, "#") || (len(t) > 0 && (t[0] == '[' || t[0] == '{' || bytes.Equal(t, []byte("null"))))
}

func (r *Run) storeFault(kind string) *StoreFault {
	r.mu.Lock()
	defer r.mu.Unlock()
	n := r.kindCnt["st:"+kind]
	r.kindCnt["st:"+kind]++
	anyN := r.kindCnt["st:any"]
	r.kindCnt["st:any"]++
	for i := range r.Scn.StoreFaults {
		f := &r.Scn.StoreFaults[i]
		if (f.OpKind == kind && f.Nth == n) || (f.OpKind == "any" && f.Nth == anyN && faultFits(f.Kind, kind)) {
			return f
		}
	}
	return nil
}

func faultFits(fk, op string) bool {
	switch op {
	case "get":
		return fk == "err" || fk == "timeout" || fk == "notexist" || fk == "trunc" || fk == "flip" || fk == "corpus" || fk == "foreign"
	case "set":
		return fk == "err" || fk == "timeout" || fk == "err-applied"
	case "delete":
		return fk == "err" || fk == "timeout"
	}
	return false
}

var errInjected = errors.New("sim: injected store failure")

func injectedErr(kind string) error {
	if kind == "timeout" {
		return context.DeadlineExceeded
	}
	return errInjected
}

var corpus = [][]byte{
	{}, []byte("null"), []byte("[null]"), []byte("[]"), []byte("{}"), []byte("[{}]"),
	[]byte(`[{"id":"","vary":"","vary_resolved":null}]`), []byte(`[{"id":"x#0","vary":"*","vary_resolved":{"A":"b"}},null]`),
	[]byte("\x00\x01\x02\xff\xfe binary noise \r\n\r\n"), []byte("not\ta\tmeta line\nHTTP/1.1 200 OK\r\n\r\n"),
	[]byte("k\t2000-01-01T00:00:00Z\t2000-01-01T00:00:00Z\n"), []byte("k\tx\ty\nHTTP/1.1 999\r\n"),
	[]byte(`[{"id":"k#0","vary":"","vary_resolved":{},"received_at":"garbage"}]`), []byte(`"str"`), []byte(`[1,2,3]`),
}

func (r *Run) beginStoreOp(g *kit.Gor, kind, key string, val []byte) *StoreOp {
	r.mu.Lock()
	defer r.mu.Unlock()
	op := &StoreOp{Idx: len(r.Store), Kind: kind, Key: key, Gor: g.ID, Owner: g.Owner, OwnerOp: g.OwnerV, Fg: g.ID == g.Owner, T: r.Sim.Now()}
	if g.ID == g.Owner {
		if e := r.cur[g.Owner]; e != nil {
			op.OwnerOp = e.OpIdx
		}
	}
	if val != nil {
		op.Val = append([]byte(nil), val...)
		op.SIDs = scanSIDs(val)
		op.IsIndex = looksIndex(key, val)
	} else if kind == "delete" {
		op.IsIndex = !strings.Contains(key, "#") // (entry keys are "<uri key>#<variant>")
	}
	r.Store = append(r.Store, op)
	if e := r.exchFor(op.Owner, op.OwnerOp); e != nil {
		e.Store = append(e.Store, op)
	}
	return op
}

func (r *Run) exchFor(owner string, opIdx int) *Exch {
	if r.exchIdx != nil {
		return r.exchIdx[exchKey{owner, opIdx}]
	}
	for i := len(r.Exchs) - 1; i >= 0; i-- {
		e := r.Exchs[i]
		if e.Name == owner && e.OpIdx == opIdx {
			return e
		}
	}
	return nil
}

func (r *Run) fired(k string) {
	r.mu.Lock()
	r.Faults[k]++
	r.mu.Unlock()
}

func (r *Run) probe(k string) {
	r.mu.Lock()
	r.Probes[k]++
	r.mu.Unlock()
}

func (c *simConn) lat(what string) {
	if c.r.Scn.StoreLat > 0 {
		c.r.Sim.Sleep(time.Duration(c.r.Scn.StoreLat), nil, what)
	}
}

func (c *simConn) Get(key string) ([]byte, error) {
	r := c.r
	g := r.Sim.Yield("st:get")
	f := r.storeFault("get")
	op := r.beginStoreOp(g, "get", key, nil)
	op.Seq = r.Sim.Event(g, "st.get", key)
	if f != nil && (f.Kind == "err" || f.Kind == "timeout") {
		// "timeout": the error a backend reports when its own operation timeout elapses (a fault like any other
		// for the oracles, but an error value some code may single out)
		ie := injectedErr(f.Kind)
		r.fired("store.get." + f.Kind)
		op.Fault, op.Err = "err", ie.Error()
		op.SeqRet = r.Sim.Event(g, "st.get.ret", "injected "+f.Kind)
		return nil, ie
	}
	if f != nil && f.Kind == "notexist" {
		r.fired("store.get.notexist")
		op.Fault, op.Err, op.NotExist = "notexist", "notexist", true
		op.SeqRet = r.Sim.Event(g, "st.get.ret", "injected notexist")
		return nil, errors.Join(driver.ErrNotExist, errors.New("sim: injected not-exist"))
	}
	c.lat("st:get-lat")
	v, err := c.inner.Get(key)
	g = r.Sim.Yield("st:get-ret")
	if err != nil {
		op.Err = err.Error()
		op.NotExist = errors.Is(err, driver.ErrNotExist)
		op.SeqRet = r.Sim.Event(g, "st.get.ret", "err notexist="+strconv.FormatBool(op.NotExist))
		return nil, err
	}
	if f != nil {
		switch f.Kind {
		case "trunc":
			if len(v) > 0 {
				k := f.Arg % len(v)
				v = v[:k]
				op.Fault = "trunc"
				r.fired("store.get.trunc")
			}
		case "flip":
			if len(v) > 0 {
				k := f.Arg % len(v)
				v[k] ^= byte(1 << (uint(f.Arg/7) % 8))
				op.Fault = "flip"
				r.fired("store.get.flip")
			}
		case "corpus":
			v = append([]byte(nil), corpus[f.Arg%len(corpus)]...)
			op.Fault = "corpus"
			r.fired("store.get.corpus")
		case "foreign":
			r.mu.Lock()
			keys := make([]string, 0, len(r.Live))
			for k := range r.Live {
				if k != key {
					keys = append(keys, k)
				}
			}
			sort.Strings(keys)
			if len(keys) > 0 {
				v = append([]byte(nil), r.Live[keys[f.Arg%len(keys)]]...)
				op.Fault = "foreign"
				r.Faults["store.get.foreign"]++
			}
			r.mu.Unlock()
		}
	}
	op.Val = append([]byte(nil), v...)
	op.SIDs = scanSIDs(v)
	op.IsIndex = looksIndex(key, v)
	op.SeqRet = r.Sim.Event(g, "st.get.ret", fmt.Sprintf("len=%d dg=%s fault=%s", len(v), digest(v), op.Fault))
	return v, nil
}

func (c *simConn) Set(key string, value []byte) error {
	r := c.r
	g := r.Sim.Yield("st:set")
	f := r.storeFault("set")
	op := r.beginStoreOp(g, "set", key, value)
	op.Seq = r.Sim.Event(g, "st.set", fmt.Sprintf("%s len=%d dg=%s sids=%v", key, len(value), digest(value), op.SIDs))
	if f != nil && (f.Kind == "err" || f.Kind == "timeout") {
		ie := injectedErr(f.Kind)
		r.fired("store.set." + f.Kind)
		op.Fault, op.Err = "err", ie.Error()
		op.SeqRet = r.Sim.Event(g, "st.set.ret", "injected "+f.Kind)
		return ie
	}
	c.lat("st:set-lat")
	err := c.inner.Set(key, value)
	g = r.Sim.Yield("st:set-ret")
	if err == nil {
		op.Applied = true
		r.mu.Lock()
		r.Live[key] = op.Val
		r.mu.Unlock()
	} else {
		op.Err = err.Error()
	}
	if f != nil && f.Kind == "err-applied" && err == nil {
		r.fired("store.set.err-applied")
		op.Fault, op.Err = "err-applied", errInjected.Error()
		err = errInjected
	}
	op.SeqRet = r.Sim.Event(g, "st.set.ret", fmt.Sprintf("err=%v", err != nil))
	return err
}

func (c *simConn) Delete(key string) error {
	r := c.r
	g := r.Sim.Yield("st:del")
	f := r.storeFault("delete")
	op := r.beginStoreOp(g, "delete", key, nil)
	op.Seq = r.Sim.Event(g, "st.del", key)
	if f != nil && (f.Kind == "err" || f.Kind == "timeout") {
		ie := injectedErr(f.Kind)
		r.fired("store.delete." + f.Kind)
		op.Fault, op.Err = "err", ie.Error()
		op.SeqRet = r.Sim.Event(g, "st.del.ret", "injected "+f.Kind)
		return ie
	}
	c.lat("st:del-lat")
	err := c.inner.Delete(key)
	g = r.Sim.Yield("st:del-ret")
	if err == nil {
		op.Applied = true
		r.mu.Lock()
		delete(r.Live, key)
		r.mu.Unlock()
	} else {
		op.Err = err.Error()
		op.NotExist = errors.Is(err, driver.ErrNotExist)
	}
	op.SeqRet = r.Sim.Event(g, "st.del.ret", fmt.Sprintf("err=%v", err != nil))
	return err
}

// ---------------- simulated disk hook ----------------

type diskHook struct{ r *Run }

var errnoByName = map[string]error{}

func (h diskHook) DiskOp(op *simos.Op) simos.Decision {
	r := h.r
	if r.Sim.Aborted() {
		return simos.Decision{}
	}
	g := r.Sim.Yield("disk:" + op.Kind)
	r.mu.Lock()
	if op.Kind == "rename" || op.Kind == "remove" {
		delete(r.preCorrupt, op.Path)
	}
	n := r.diskCnt[op.Kind]
	r.diskCnt[op.Kind]++
	anyN := r.diskCnt["any"]
	r.diskCnt["any"]++
	var f *DiskFault
	for i := range r.Scn.DiskFaults {
		df := &r.Scn.DiskFaults[i]
		if (df.OpKind == op.Kind && df.Nth == n) || (df.OpKind == "any" && df.Nth == anyN) {
			f = df
			break
		}
	}
	r.mu.Unlock()
	dec := simos.Decision{}
	info := fmt.Sprintf("%s n=%d off=%d", op.Path, op.N, op.Off)
	if f != nil {
		r.mu.Lock()
		if r.curPhase == 1 {
			r.faultInPhase2 = true
		}
		r.mu.Unlock()
		k := f.Arg
		if f.Permille {
			k = op.N * f.Arg / 1000
		}
		if k > op.N {
			k = op.N
		}
		if f.Errno == "CRASH" {
			r.fired("disk.crash@" + op.Kind)
			if op.Kind == "write" && k > 0 {
				r.applyPartialWrite(op, k)
			}
			r.Sim.Event(g, "disk."+op.Kind, info+fmt.Sprintf(" CRASH after %d", k))
			r.mu.Lock()
			r.Crashes++
			r.mu.Unlock()
			r.Sim.Crash()
			runtime.Goexit()
		}
		dec.Err = errnoOf(f.Errno)
		dec.N = k
		r.fired("disk." + strings.ToLower(f.Errno) + "@" + op.Kind)
		info += fmt.Sprintf(" FAULT %s after %d", f.Errno, k)
	} else if op.Kind == "read" && r.Scn.RChunk > 0 && op.N > r.Scn.RChunk && n < 48 {
		dec.N = r.Scn.RChunk
		r.mu.Lock()
		r.Faults["disk.short-read"]++
		r.mu.Unlock()
	}
	r.Sim.Event(g, "disk."+op.Kind, info)
	return dec
}

// applyPartialWrite is used for a kill in the middle of a write: the first k
// bytes reach the file although the call never returns.
func (r *Run) applyPartialWrite(op *simos.Op, k int) {
	data := append([]byte(nil), op.Data[:k]...)
	off := op.Off
	_ = simos.Corrupt(op.Path, func(old []byte) []byte {
		end := off + int64(len(data))
		if int64(len(old)) < end {
			nd := make([]byte, end)
			copy(nd, old)
			old = nd
		}
		copy(old[off:], data)
		return old
	})
}

func (h diskHook) Wrote(p string, content []byte) {
	r := h.r
	r.mu.Lock()
	delete(r.preCorrupt, p)
	r.mu.Unlock()
	if r.Scn.Backend == "fsenc" {
		r.mu.Lock()
		if r.cipherSeen == nil {
			r.cipherSeen = map[string][32]byte{}
		}
		if len(content) >= 28 { // nonce + tag: anything shorter is a partial write
			r.cipherSeen[p] = sha256.Sum256(content)
		} else {
			delete(r.cipherSeen, p)
		}
		r.mu.Unlock()
	}
	if len(r.diskPlain) == 0 {
		return
	}
	for _, pl := range r.diskPlain {
		if len(pl) >= 8 && bytes.Contains(content, pl) {
			r.mu.Lock()
			r.PlainHits = append(r.PlainHits, fmt.Sprintf("%s contains %q", p, pl))
			r.mu.Unlock()
			return
		}
	}
}

// cipherTwins reports two different files whose last written contents (at least nonce+tag long) were
// byte-identical: two writes of an encrypting backend that produced the same ciphertext.
func (r *Run) cipherTwins() (a, b string, n int) {
	r.mu.Lock()
	defer r.mu.Unlock()
	paths := make([]string, 0, len(r.cipherSeen))
	for p := range r.cipherSeen {
		paths = append(paths, p)
	}
	sort.Strings(paths)
	first := map[[32]byte]string{}
	for _, p := range paths {
		h := r.cipherSeen[p]
		if q, ok := first[h]; ok && a == "" {
			a, b = q, p
		}
		if _, ok := first[h]; !ok {
			first[h] = p
		}
	}
	return a, b, len(paths)
}

// goHook registers a goroutine of the library with the scheduler at its birth (no parking, no draw).
func (r *Run) goHook() {
	if r.Sim == nil || r.Sim.Aborted() {
		return
	}
	r.Sim.Self()
}

// randHook is the scheduling point of the simulated crypto/rand.
// lockHook: a goroutine of the library found a sync.Mutex / RWMutex held (simsync). It parks, for a span of
// virtual time that doubles with every attempt, and tries again; under the pairing scheduler of the race build
// two goroutines really run side by side and the runtime's own blocking is used.
func (r *Run) lockHook(attempt int) bool {
	if r.Sim == nil || r.Sim.Aborted() || r.Sim.Pair {
		return false
	}
	d := time.Duration(0)
	if attempt > 0 {
		d = time.Microsecond << min(attempt, 20)
	}
	r.probe("lock-held-across-seam")
	r.Sim.YieldAfter("lock:wait", d)
	return !r.Sim.Aborted()
}

func (r *Run) randHook(what string) {
	if r.Sim == nil || r.Sim.Aborted() {
		return
	}
	r.Sim.Yield(what)
}

// ---------------- logger ----------------

func (r *Run) logger() *slog.Logger {
	r.logBuf = &bytes.Buffer{}
	w := &lockedWriter{w: r.logBuf}
	opts := &slog.HandlerOptions{Level: slog.LevelDebug, AddSource: true}
	switch r.Scn.Logger {
	case "text":
		return slog.New(slog.NewTextHandler(w, opts))
	case "json":
		return slog.New(slog.NewJSONHandler(w, opts))
	case "text-info":
		return slog.New(slog.NewTextHandler(w, &slog.HandlerOptions{Level: slog.LevelInfo}))
	}
	return nil
}

type lockedWriter struct {
	mu sync.Mutex
	w  *bytes.Buffer
}

func (l *lockedWriter) Write(p []byte) (int, error) {
	l.mu.Lock()
	defer l.mu.Unlock()
	if l.w.Len() > 1<<20 {
		l.w.Reset()
	}
	return l.w.Write(p)
}

// ---------------- running a tsim scenario ----------------

const drainSpan = 20 * time.Minute

const maxVirtual = 190 * 365 * 24 * time.Hour

func newRun(scn *Scenario) *Run {
	r := &Run{
		Scn: scn, kindCnt: map[string]int{}, diskCnt: map[string]int{}, Live: map[string][]byte{},
		Faults: map[string]int{}, Probes: map[string]int{}, cur: map[string]*Exch{},
		resCnt: make([]int, len(scn.Resources)), resVer: make([]int, len(scn.Resources)),
		resLM: make([]time.Duration, len(scn.Resources)),
	}
	for i := range scn.Resources {
		r.resLM[i] = -time.Duration(scn.Resources[i].LMBase) * time.Second
	}
	return r
}

func (r *Run) openTransport() (rt http.RoundTripper, perr string) {
	defer func() {
		if p := recover(); p != nil {
			perr = fmt.Sprint(p)
		}
	}()
	opts := []httpcache.Option{httpcache.WithUpstream(&originRT{r: r})}
	if r.Scn.SWRSet {
		opts = append(opts, httpcache.WithSWRTimeout(time.Duration(r.Scn.SWRNs)))
	}
	if lg := r.logger(); lg != nil {
		opts = append(opts, httpcache.WithLogger(lg))
	}
	return httpcache.NewTransport("sim://run", opts...), ""
}

// RunTsim executes the scenario inside the calling goroutine's synctest
// bubble (the caller is the bubble's root goroutine).
func RunTsim(scn *Scenario) *Run {
	registerDriver()
	r := newRun(scn)
	tape := kit.NewTape(scn.Decisions, scn.SchedSeed, len(scn.Decisions) == 0)
	r.Sim = kit.New(tape, scn.Sched)
	r.Sim.Pair = scn.Pair
	curRunMu.Lock()
	curRun = r
	curRunMu.Unlock()
	simos.Reset(diskHook{r})
	simrand.SetHook(r.randHook)
	simgo.SetHook(r.goHook)
	simsync.SetHook(r.lockHook)
	simos.WriteChunk = scn.WChunk

	var wg sync.WaitGroup
	started := make(chan struct{})
	wg.Add(1)
	go func() {
		defer wg.Done()
		g := r.Sim.Register("init")
		close(started)
		r.Sim.Yield("init")
		rt, perr := r.openTransport()
		g = r.Sim.Yield("init-done")
		if perr != "" {
			r.Sim.Event(g, "open.panic", perr)
			r.mu.Lock()
			r.clientsDone = len(scn.Clients)
			r.mu.Unlock()
			return
		}
		r.rt = rt
		r.Sim.Event(g, "open", scn.Backend)
		var cwg sync.WaitGroup
		for ci := range scn.Clients {
			wg.Add(1)
			cwg.Add(1)
			go func() {
				defer cwg.Done()
				r.client(ci, &scn.Clients[ci], "c"+strconv.Itoa(ci+1), &wg)
			}()
		}
		if len(scn.Clients2) == 0 {
			return
		}
		// second incarnation: after the first one ended (or was killed) a new transport is opened on what
		// the backing store holds now
		cwg.Wait()
		if r.Sim.Aborted() {
			return
		}
		r.Sim.Adopt(g)
		g = r.Sim.Yield("restart")
		if r.Sim.Aborted() {
			return
		}
		if scn.Backend == "mem" {
			return
		}
		rt2, perr2 := r.openTransport()
		g = r.Sim.Yield("restart-done")
		if r.Sim.Aborted() {
			return
		}
		if perr2 != "" {
			r.Sim.Event(g, "open.panic", perr2)
			r.mu.Lock()
			r.clientsDone = len(scn.Clients) + len(scn.Clients2)
			r.mu.Unlock()
			return
		}
		r.mu.Lock()
		r.rt = rt2
		r.Restarts++
		r.clientsDone = len(scn.Clients) // killed clients count as done
		r.mu.Unlock()
		r.Sim.Event(g, "reopen", fmt.Sprintf("crashes=%d", r.Crashes))
		for ci := range scn.Clients2 {
			wg.Add(1)
			go r.client(len(scn.Clients)+ci, &scn.Clients2[ci], "d"+strconv.Itoa(ci+1), &wg)
		}
	}()
	<-started
	r.Sim.Run(func() bool {
		r.mu.Lock()
		defer r.mu.Unlock()
		return r.clientsDone >= len(scn.Clients)+len(scn.Clients2) || (scn.Backend == "mem" && r.clientsDone >= len(scn.Clients))
	}, drainSpan)
	r.VirtSpan = r.Sim.Now()
	for _, e := range r.Exchs {
		if e.HdrLive != nil && e.HdrFinal != nil {
			e.HdrEnd = e.HdrLive.Clone()
		}
	}
	// goroutine census before unwinding: whatever the SUT still has running
	// now has outlived every origin call and every pending timer.
	for _, st := range kit.BubbleGoroutines() {
		if strings.Contains(st, "engine.(*Run).client") || strings.Contains(st, "engine.RunTsim") || !hasSUTFrame(st) {
			continue
		}
		r.LeakStacks = append(r.LeakStacks, st)
	}
	r.Sim.Abort()
	wg.Wait()
	simos.SetHook(nil)
	simrand.SetHook(nil)
	simgo.SetHook(nil)
	simsync.SetHook(nil)
	curRunMu.Lock()
	curRun = nil
	curRunMu.Unlock()
	return r
}

var spellings = []string{"canon", "uphost", "defport", "pctlower", "pctunres", "dot", "dotdot", "frag", "pctunreslower", "upscheme", "pctdot", "pctdotdot"}

// BuildURL renders resource res in the given spelling; every spelling is
// equivalent to the canonical one under RFC 3986 §6.2.2-6.2.3 by construction.
// rawBytes: "{FF}" in a scenario's query stands for the raw byte 0xFF (scenario files are JSON, which cannot
// carry bytes that are not UTF-8).
var rawByteRe = regexp.MustCompile(`\{([0-9A-F]{2})\}`)

func rawBytes(s string) string {
	return rawByteRe.ReplaceAllStringFunc(s, func(m string) string {
		b, _ := strconv.ParseUint(m[1:3], 16, 8)
		return string([]byte{byte(b)})
	})
}

func BuildURL(res *Resource, sp int) string {
	scheme, host, p, q := "http", res.Host, res.Path, rawBytes(res.Query)
	switch spellings[sp%len(spellings)] {
	case "uphost":
		host = strings.ToUpper(host)
	case "defport":
		if !strings.Contains(host, ":") {
			host += ":80"
		}
	case "pctlower":
		p, q = pctCase(p, false), pctCase(q, false)
	case "pctunres":
		p, q = strings.ReplaceAll(p, "~", "%7E"), strings.ReplaceAll(q, "~", "%7E")
	case "pctunreslower":
		p, q = strings.ReplaceAll(p, "~", "%7e"), strings.ReplaceAll(q, "~", "%7e")
	case "dot":
		p = strings.Replace(p, "/", "/./", 1)
	case "dotdot":
		p = "/zz/.." + p
	case "pctdot":
		// "%2E" is "." (an unreserved character, RFC 3986 §6.2.2.2), so these are dot segments too
		p = strings.Replace(p, "/", "/%2E/", 1)
	case "pctdotdot":
		p = "/zz/%2e%2E" + p
	case "frag":
		u := scheme + "://" + host + p
		if q != "" {
			u += "?" + q
		}
		return u + "#frag"
	case "upscheme":
		scheme = "HTTP"
	}
	u := scheme + "://" + host + p
	if q != "" {
		u += "?" + q
	}
	return u
}

func pctCase(s string, upper bool) string {
	b := []byte(s)
	for i := 0; i+2 < len(b); i++ {
		if b[i] == '%' {
			for j := i + 1; j <= i+2; j++ {
				c := b[j]
				if upper && c >= 'a' && c <= 'f' {
					b[j] = c - 32
				}
				if !upper && c >= 'A' && c <= 'F' {
					b[j] = c + 32
				}
			}
			i += 2
		}
	}
	return string(b)
}

func snapReq(req *http.Request) ReqSnap {
	s := ReqSnap{Method: req.Method, RawMethod: req.Method, Host: req.Host, Header: req.Header.Clone(), Ctx: req.Context()}
	if s.Method == "" {
		s.Method = http.MethodGet // net/http: an empty method means GET
	}
	if req.URL != nil {
		s.URL = req.URL.String()
	}
	if s.Header == nil {
		s.Header = http.Header{}
	}
	return s
}

func (r *Run) client(ci int, cl *Client, name string, wg *sync.WaitGroup) {
	defer wg.Done()
	g := r.Sim.Register(name)
	defer func() {
		r.mu.Lock()
		r.clientsDone++
		r.mu.Unlock()
	}()
	for oi := range cl.Ops {
		op := &cl.Ops[oi]
		g.SetOp(oi)
		if op.ThinkNs > 0 {
			think := time.Duration(op.ThinkNs)
			if r.Sim.Now()+think > maxVirtual {
				think = time.Second // the bubble clock ends in 2262; stay well below
			}
			r.Sim.Sleep(think, nil, "think")
		} else {
			r.Sim.Yield("op")
		}
		if r.Sim.Aborted() {
			return
		}
		if op.Admin != "" {
			r.admin(g, op)
			continue
		}
		r.exchange(g, ci, oi, name, op)
		if r.Sim.Aborted() {
			return
		}
	}
}

func (r *Run) admin(g *kit.Gor, op *Op) {
	switch op.Admin {
	case "restart":
		// graceful: nothing in flight on this client; open a new transport on the same backing store
		r.Sim.Event(g, "admin.restart", "")
		if r.Scn.Backend == "mem" {
			return // a memory backend does not survive a restart; keep the transport
		}
		rt, perr := r.openTransport()
		g = r.Sim.Yield("restart-done")
		if perr != "" {
			r.Sim.Event(g, "open.panic", perr)
			return
		}
		r.mu.Lock()
		r.rt = rt
		r.Restarts++
		r.mu.Unlock()
	case "clock-step":
		simclock.Step(time.Duration(op.AdminArg) * time.Second)
		r.fired("clock.step")
		r.Sim.Event(g, "admin.clock-step", fmt.Sprintf("%+ds (offset now %s)", op.AdminArg, simclock.Offset()))
	case "evict":
		// something outside the transport removes one stored entry (the cleanup job the file-system backend's
		// documentation recommends, or DELETE through the maintenance API): its index record now dangles
		r.mu.Lock()
		var keys []string
		for k := range r.Live {
			if strings.Contains(k, "#") {
				keys = append(keys, k)
			}
		}
		inner := r.inner
		r.mu.Unlock()
		sort.Strings(keys)
		if len(keys) == 0 || inner == nil {
			return
		}
		k := keys[op.AdminArg%len(keys)]
		err := inner.Delete(k)
		r.mu.Lock()
		delete(r.Live, k)
		r.mu.Unlock()
		r.probe("entry-evicted-externally")
		r.Sim.Event(g, "admin.evict", fmt.Sprintf("%s err=%v", k, err != nil))
	case "corrupt":
		files := simos.Snapshot()
		names := make([]string, 0, len(files))
		for k := range files {
			names = append(names, k)
		}
		sort.Strings(names)
		if len(names) == 0 {
			return
		}
		p := names[op.AdminArg%len(names)]
		arg := op.AdminArg / 7
		r.mu.Lock()
		if r.preCorrupt == nil {
			r.preCorrupt = map[string][]byte{}
		}
		if _, seen := r.preCorrupt[p]; !seen {
			r.preCorrupt[p] = append([]byte{}, files[p]...) // what the backend had written
		}
		r.mu.Unlock()
		_ = simos.Corrupt(p, func(b []byte) []byte {
			if len(b) == 0 {
				return []byte{1}
			}
			switch arg % 3 {
			case 0:
				b[arg%len(b)] ^= 0x01
			case 1:
				b = b[:arg%len(b)]
			default:
				b = append(b, 0)
			}
			return b
		})
		r.fired("disk.at-rest-corruption")
		seq := r.Sim.Event(g, "admin.corrupt", fmt.Sprintf("%s mode=%d", p, arg%3))
		// which key lives in that file (flat names are base64url of the key); unknown layouts are simply not attributed
		if kb, err := base64.RawURLEncoding.DecodeString(path.Base(p)); err == nil {
			r.mu.Lock()
			if now, ok := simos.Snapshot()[p]; ok && r.preCorrupt[p] != nil && bytes.Equal(now, r.preCorrupt[p]) {
				// a second modification restored the bytes the backend wrote (append one byte, cut one byte):
				// the file is not modified any more
				kept := r.Corrupted[:0]
				for _, c := range r.Corrupted {
					if c.Path != p {
						kept = append(kept, c)
					}
				}
				r.Corrupted = kept
			} else {
				r.Corrupted = append(r.Corrupted, corruptRec{Path: p, Key: string(kb), Seq: seq})
			}
			r.mu.Unlock()
		}
	}
}

type bodyPoison struct{ io.ReadCloser }

// hdrValue decodes a scripted header value ("hex:..." carries bytes that JSON cannot).
func hdrValue(v string) string {
	if strings.HasPrefix(v, "hex:") {
		if b, err := hex.DecodeString(v[4:]); err == nil {
			return string(b)
		}
	}
	return v
}

type exchKey struct {
	name string
	op   int
}

// reuseSlot: a request value a client keeps sending, and what it contained when the client built it.
type reuseSlot struct {
	req  *http.Request
	snap ReqSnap
	hdr  [][2]string // the selecting header fields the client last put on it
}

func (r *Run) exchange(g *kit.Gor, ci, oi int, name string, op *Op) {
	res := &r.Scn.Resources[op.Res%len(r.Scn.Resources)]
	method := op.Method
	if method == "" {
		method = http.MethodGet
	}
	ctx := context.Background()
	var cancel context.CancelFunc
	if op.CancelNs != 0 {
		if op.CancelNs < 0 {
			ctx, cancel = context.WithCancel(ctx)
			cancel()
		} else {
			// a deadline rather than a timer calling cancel: the harness can then decide ties with
			// origin latencies from the deadline itself (see ctxOver)
			ctx, cancel = context.WithTimeout(ctx, time.Duration(op.CancelNs))
		}
		defer cancel()
	}
	// a polling client sends one and the same request value again and again; what it means to send is what
	// it built the first time, whatever the transport may have done to the value in between
	reuseKey := ""
	if op.CancelNs == 0 && op.Cond == "" && !op.Poison && op.OddURL == "" {
		reuseKey = fmt.Sprintf("%s|%s|%d|%d|%s|%s|%v", name, method, op.Res, op.Spelling, op.CC, op.CCStyle, op.Range)
	}
	var reused *reuseSlot
	if op.Reuse && reuseKey != "" {
		r.mu.Lock()
		reused = r.reqReuse[reuseKey]
		r.mu.Unlock()
	}
	var req *http.Request
	var err error
	if reused != nil {
		req = reused.req
		r.probe("request-value-reused")
		if !reflect.DeepEqual(reused.hdr, op.Hdr) {
			// the client changes the selecting header fields of its own request value in place before sending it
			// again (legal once the previous RoundTrip has returned and its body is closed)
			for _, kv := range reused.hdr {
				req.Header.Del(kv[0])
				reused.snap.Header.Del(kv[0])
			}
			for _, kv := range op.Hdr {
				req.Header.Add(kv[0], hdrValue(kv[1]))
				reused.snap.Header.Add(kv[0], hdrValue(kv[1]))
			}
			reused.hdr = op.Hdr
			r.probe("request-value-reused-changed")
		}
	} else {
		req, err = http.NewRequestWithContext(ctx, method, BuildURL(res, op.Spelling), nil)
	}
	if err != nil {
		r.Sim.Event(g, "client.badreq", err.Error())
		return
	}
	if op.OddURL != "" && reused == nil {
		req.URL, req.Host = oddURL(op.OddURL), ""
		r.probe("odd-request-url")
	}
	if op.EmptyMethod && req.Method == http.MethodGet {
		req.Method = "" // a request value built as a struct literal: legal, means GET
	}
	if reused != nil {
		// headers were set when the value was built
	} else if op.CC != "" {
		for _, line := range ccStyled(op.CC, op.CCStyle) {
			req.Header.Add("Cache-Control", line)
		}
	}
	for _, kv := range op.Hdr {
		if reused == nil {
			req.Header.Add(kv[0], hdrValue(kv[1]))
		}
	}
	if op.Range && reused == nil {
		req.Header.Set("Range", "bytes=0-9")
	}
	switch op.Cond {
	case "inm-current":
		r.mu.Lock()
		req.Header.Set("If-None-Match", r.etagFor(op.Res%len(r.Scn.Resources), r.varKeyOf(op.Res%len(r.Scn.Resources), req.Header), "strong"))
		r.mu.Unlock()
	case "inm-bogus":
		req.Header.Set("If-None-Match", `"bogus-etag"`)
	case "ims":
		req.Header.Set("If-Modified-Since", r.Sim.Epoch0.Add(r.Sim.Now()).UTC().Format(http.TimeFormat))
	}
	e := &Exch{Client: ci, OpIdx: oi, Op: op, Name: name, Req: snapReq(req), TInv: r.Sim.Now(), Epoch: r.Sim.Epoch()}
	if reused != nil {
		e.Req = reused.snap
		e.Req.Header = reused.snap.Header.Clone()
	} else if reuseKey != "" {
		r.mu.Lock()
		if r.reqReuse == nil {
			r.reqReuse = map[string]*reuseSlot{}
		}
		sn := e.Req
		sn.Header = e.Req.Header.Clone()
		r.reqReuse[reuseKey] = &reuseSlot{req: req, snap: sn, hdr: op.Hdr}
		r.mu.Unlock()
	}
	r.mu.Lock()
	r.Exchs = append(r.Exchs, e)
	if r.exchIdx == nil {
		r.exchIdx = map[exchKey]*Exch{}
	}
	r.exchIdx[exchKey{name, oi}] = e
	r.cur[name] = e
	rt := r.rt
	r.mu.Unlock()
	e.SeqInv = r.Sim.Event(g, "inv", fmt.Sprintf("%s %s cc=%q hdr=%v", method, req.URL, op.CC, op.Hdr))

	var resp *http.Response
	func() {
		defer func() {
			if p := recover(); p != nil {
				e.Panic = fmt.Sprintf("%v\n%s", p, trimStack(debug.Stack()))
			}
		}()
		resp, err = rt.RoundTrip(req)
	}()
	e.TRetRaw = r.Sim.Now() // the instant RoundTrip returned (the grant to log it may come later)
	g = r.Sim.Yield("ret")
	if r.Sim.Aborted() {
		return
	}
	e.Returned = true
	e.TRet = r.Sim.Now()
	e.ReqAfter = snapReq(req)
	switch {
	case e.Panic != "":
	case resp == nil && err == nil:
		e.NilNil = true
	case resp != nil && err != nil:
		e.Both = true
	}
	if err != nil {
		e.Err = err.Error()
		e.ErrCtx = errors.Is(err, context.Canceled) || errors.Is(err, context.DeadlineExceeded)
	}
	if resp != nil {
		e.Status = resp.StatusCode
		e.Header = resp.Header.Clone()
		e.HdrLive = resp.Header
		e.Proto = resp.Proto
		e.RespPtr = resp
	}
	e.SeqRet = r.Sim.Event(g, "ret", fmt.Sprintf("status=%d err=%q panic=%v st=%s seq=%s", e.Status, e.Err, e.Panic != "", hget(e.Header, "X-Httpcache-Status"), hget(e.Header, "X-Sim-Seq")))
	if resp != nil && resp.Body != nil {
		rd := op.Read
		if sid, _ := strconv.Atoi(strings.TrimSpace(strings.SplitN(hget(resp.Header, "X-Sim-Seq"), ",", 2)[0])); sid > 0 {
			r.mu.Lock()
			if r.stallSID[sid] {
				rd = "close" // (a client of a body that never ends gives up on it)
			}
			r.mu.Unlock()
		}
		switch rd {
		case "close":
			resp.Body.Close()
		case "partial":
			buf := make([]byte, 48)
			n, _ := io.ReadFull(resp.Body, buf)
			e.Body = buf[:n]
			resp.Body.Close()
		default:
			b, rerr := io.ReadAll(resp.Body)
			resp.Body.Close()
			e.Body = b
			e.BodyRead = true
			if rerr != nil {
				e.BodyErr = rerr.Error()
			}
		}
		if r.Sim.Aborted() {
			return
		}
		g = r.Sim.Yield("body")
		r.Sim.Event(g, "body", fmt.Sprintf("len=%d dg=%s err=%q", len(e.Body), digest(e.Body), e.BodyErr))
	}
	if op.Poison && resp != nil {
		tag := fmt.Sprintf("POISON-%s-%d", name, oi)
		e.Poisons = append(e.Poisons, tag)
		resp.Header.Set("X-Poison", tag)
		resp.Header.Set("Etag", `"`+tag+`"`)
		resp.Header.Del("Cache-Control")
		resp.Header.Set("Cache-Control", "max-age=999999, "+tag)
		resp.Body = bodyPoison{io.NopCloser(strings.NewReader(tag))}
		req.Header.Set("X-Poison-Req", tag)
	}
	if resp != nil {
		e.HdrFinal = resp.Header.Clone()
	}
	r.mu.Lock()
	delete(r.cur, name)
	r.exchDone++
	for _, cp := range r.Scn.Checkpoints {
		if cp == r.exchDone {
			gp := GrowthPoint{N: cp, Keys: len(r.Live), Index: map[string]int{}}
			for k, v := range r.Live {
				gp.Bytes += len(v)
				if looksIndex(k, v) {
					gp.Index[k] = len(v)
					gp.MaxIndex = max(gp.MaxIndex, len(v))
				}
			}
			r.Growth = append(r.Growth, gp)
		}
	}
	r.mu.Unlock()
}

// oddURL: request URLs as callers hand them to a RoundTripper - http.Client passes a URL without scheme or
// host on (net/http's own transport answers those with an error), a struct-literal URL is not normalised.
// The path belongs to no resource of the origin, which refuses the connection.
func oddURL(kind string) *url.URL {
	switch kind {
	case "relative":
		return &url.URL{Path: "/odd/relative"}
	case "zone":
		u, _ := url.Parse("http://[fe80::1%25eth0]:8080/odd/zone")
		return u
	case "nohost":
		return &url.URL{Scheme: "http", Path: "/odd/nohost"}
	case "spacehost":
		return &url.URL{Scheme: "http", Host: "a b.test", Path: "/odd/spacehost"}
	case "opaque":
		return &url.URL{Scheme: "http", Opaque: "odd-opaque"}
	case "upper":
		return &url.URL{Scheme: "HTTP", Host: "A.TEST:80", Path: "/odd/upper"}
	}
	return &url.URL{}
}

func hget(h http.Header, k string) string {
	if h == nil {
		return ""
	}
	return h.Get(k)
}

func trimStack(b []byte) string {
	s := string(b)
	if len(s) > 3000 {
		s = s[:3000]
	}
	return s
}

func errnoOf(name string) error {
	switch name {
	case "ENOSPC":
		return syscall.ENOSPC
	case "EIO":
		return syscall.EIO
	case "EDQUOT":
		return syscall.EDQUOT
	case "EMFILE":
		return syscall.EMFILE
	case "EACCES":
		return syscall.EACCES
	case "ENOENT":
		return syscall.ENOENT
	case "EPERM":
		return syscall.EPERM
	case "EXDEV":
		return syscall.EXDEV
	}
	return syscall.EIO
}

// hasSUTFrame: does the goroutine's stack contain a function of the repository itself?
func hasSUTFrame(st string) bool {
	for _, ln := range strings.Split(st, "\n") {
		if strings.HasPrefix(ln, "github.com/bartventer/httpcache") && !strings.Contains(ln, "/verifsim/") {
			return true
		}
	}
	return false
}
