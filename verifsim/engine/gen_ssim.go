package engine

import (
	"encoding/hex"
	"math/rand/v2"
	"strings"
	"time"

	"github.com/bartventer/httpcache/verifsim/kit"
)

func (g *gen) rbytes(n int, ascii bool) string {
	b := make([]byte, n)
	for i := range b {
		if ascii {
			b[i] = "abcdefghijklmnopqrstuvwxyz0123456789-_.~:/?#"[g.IntN(44)]
		} else {
			b[i] = byte(g.IntN(256))
		}
	}
	return string(b)
}

// adversarial key table: lengths around the 255-byte file-name limit and the
// 48-character fragment size, shared prefixes, arbitrary bytes, URL-shaped keys.
func (g *gen) keyTable(n int, simple bool) []string {
	if simple {
		ks := []string{"http://a.test/r0/x#0", "k2"}
		return ks[:max(1, min(n, 2))]
	}
	var ks []string
	base := g.rbytes(36, g.chance(50))
	long := base + g.rbytes(pick(g, 156, 157, 180, 200, 400), g.chance(50))
	for len(ks) < n {
		switch g.IntN(15) {
		case 0:
			ks = append(ks, base)
		case 1:
			ks = append(ks, long)
		case 2:
			ks = append(ks, long[:pick(g, 190, 191, 192, 193)%len(long)])
		case 3:
			ks = append(ks, base+g.rbytes(pick(g, 1, 36, 155, 156, 300), false))
		case 4:
			// a long key (whatever the fragment size, some lengths fill the last fragment exactly) and an extension of it
			k := g.rbytes(192+g.IntN(400), g.chance(50))
			ks = append(ks, k, k+g.rbytes(pick(g, 1, 35, 36, 47, 100), false))
		case 5:
			ks = append(ks, "http://a.test/r"+g.rbytes(3, true)+"#"+pick(g, "0", "123456789"))
		case 6:
			ks = append(ks, "http://a.test/r1", "http://a.test/r1#0", "http://a.test/r1#0#x")
		case 7:
			ks = append(ks, g.rbytes(pick(g, 1, 2, 35, 36, 37, 47, 48, 49), false))
		case 8:
			ks = append(ks, g.rbytes(pick(g, 189, 190, 191, 192, 193, 255, 256), false))
		case 9:
			ks = append(ks, "")
		case 10:
			ks = append(ks, pick(g, ".", "..", "a/b", "a/../b", "/", "\x00", "key with space", "ünïcödé", "%2F%2f", "a\nb"))
		case 11:
			ks = append(ks, strings.Repeat("A", pick(g, 36, 72, 191, 192, 1000)))
		case 12:
			ks = append(ks, g.rbytes(192+g.IntN(400), true))
		case 13:
			// URL-sized keys whose file path is longer than PATH_MAX (a few kilobytes of query string)
			ks = append(ks, "http://a.test/r?q="+g.rbytes(pick(g, 2900, 3100, 3300, 8000), true))
		default:
			ks = append(ks, g.rbytes(1+g.IntN(60), true))
		}
	}
	return ks
}

func hexAll(ks []string) []string {
	out := make([]string, len(ks))
	for i, k := range ks {
		out[i] = hex.EncodeToString([]byte(k))
	}
	return out
}

func genSsim(profile string, seed uint64, thorough bool) *Scenario {
	g := &gen{Rand: rand.New(rand.NewPCG(seed, 0x55ed))}
	scn := &Scenario{Profile: profile, Seed: seed, Engine: "ssim", Logger: "discard"}
	scn.Sched = kit.Sched{Strategy: pick(g, "random", "random", "sticky", "pct"), P: pick(g, 50, 80, 95)}
	scn.SchedSeed = g.Uint64()
	maxVal := 3000
	if thorough && g.chance(10) {
		maxVal = 1 << 20
	}
	vlen := func() int {
		if g.chance(8) {
			return g.IntN(maxVal + 1)
		}
		return pick(g, 0, 1, 2, 17, 100, 300, 300, 1000)
	}
	switch profile {
	case "map":
		scn.Backend = pick(g, "mem", "fs", "fs", "fsenc")
		if scn.Backend == "fsenc" {
			scn.EncVia = pick(g, "option", "dsn", "env")
		}
		scn.Sched.Strategy = "fifo"
		scn.Keys = hexAll(g.keyTable(2+g.IntN(6), false))
		n := 6 + g.IntN(30)
		if thorough {
			n *= 2
		}
		var cl SClient
		for i := 0; i < n; i++ {
			op := SOp{Key: g.IntN(len(scn.Keys)), ValLen: vlen(), Class: g.IntN(2)}
			op.Kind = []string{"set", "get", "delete", "keys", "reopen", "api-get", "api-delete", "api-list", "set-mutate", "get-mutate"}[g.wpick(35, 28, 9, 8, 5, 4, 2, 3, 3, 3)]
			if scn.Backend == "mem" && strings.HasPrefix(op.Kind, "api-") {
				op.Kind = "get"
			}
			op.Prefix = pick(g, 0, 0, 1, 5, 16, 36, 1000)
			cl.Ops = append(cl.Ops, op)
		}
		scn.SClients = []SClient{cl}
	case "recover":
		// concurrent writers over adversarial keys, usually killed or failed at some disk call; then the
		// directory is reopened and a single client reads everything back and lists
		scn.Backend = pick(g, "fs", "fs", "fsenc")
		if scn.Backend == "fsenc" {
			scn.EncVia = pick(g, "option", "dsn", "env")
		}
		scn.Keys = hexAll(g.keyTable(2+g.IntN(4), false))
		scn.WChunk = pick(g, 0, 7, 64, 64)
		nc := 1 + g.IntN(3)
		// disjoint: every client is the only one that touches "its" key, and nothing fails: each key's
		// operations then form one sequence although the clients run concurrently
		scn.Disjoint = g.chance(30)
		if scn.Disjoint {
			nc = 2 + g.IntN(3)
			for len(scn.Keys) < nc {
				scn.Keys = append(scn.Keys, hexAll(g.keyTable(1, false))...)
			}
			seen := map[string]bool{}
			for _, k := range scn.Keys[:nc] {
				if seen[k] {
					scn.Disjoint = false
				}
				seen[k] = true
			}
		}
		for c := 0; c < nc; c++ {
			var cl SClient
			n := 2 + g.IntN(6)
			for i := 0; i < n; i++ {
				op := SOp{Key: g.IntN(len(scn.Keys)), ValLen: pick(g, 1, 17, 100, 300, 1000), Class: g.IntN(2)}
				op.Kind = []string{"set", "get", "delete", "keys"}[g.wpick(60, 15, 15, 10)]
				op.Prefix = pick(g, 0, 0, 1, 36, 1000)
				if scn.Disjoint {
					op.Key = c
					op.Kind = []string{"set", "get", "delete", "set-mutate", "get-mutate"}[g.wpick(45, 35, 10, 5, 5)]
				}
				cl.Ops = append(cl.Ops, op)
			}
			scn.SClients = append(scn.SClients, cl)
		}
		if !scn.Disjoint && g.chance(80) {
			f := DiskFault{OpKind: pick(g, "write", "sync", "create", "close", "rename", "mkdir", "any", "any"), Nth: g.IntN(8), Errno: pick(g, "ENOSPC", "EIO", "CRASH", "CRASH", "CRASH")}
			f.Arg, f.Permille = g.IntN(1001), true
			scn.DiskFaults = append(scn.DiskFaults, f)
		}
		var p2 SClient
		for k := range scn.Keys {
			p2.Ops = append(p2.Ops, SOp{Kind: "get", Key: k})
		}
		p2.Ops = append(p2.Ops, SOp{Kind: "keys", Key: 0, Prefix: 0})
		for i, n := 0, g.IntN(5); i < n; i++ {
			op := SOp{Key: g.IntN(len(scn.Keys)), ValLen: pick(g, 1, 100, 1000), Class: g.IntN(2)}
			op.Kind = []string{"set", "get", "delete", "keys", "reopen"}[g.wpick(35, 15, 20, 25, 5)]
			op.Prefix = pick(g, 0, 0, 1, 36, 1000)
			p2.Ops = append(p2.Ops, op)
		}
		p2.Ops = append(p2.Ops, SOp{Kind: "keys", Key: 0, Prefix: 0})
		scn.Phase2 = []SClient{p2}
	case "atomic", "crypt":
		scn.Backend = pick(g, "fs", "fsenc")
		if profile == "crypt" {
			scn.Backend = "fsenc"
		}
		if scn.Backend == "fsenc" {
			scn.EncVia = pick(g, "option", "dsn", "env")
		}
		scn.Keys = hexAll(g.keyTable(1+g.IntN(2), true))
		scn.WChunk = pick(g, 0, 1, 7, 64, 64)
		scn.RChunk = pick(g, 0, 0, 1, 13, 100)
		nc := 2 + g.IntN(3)
		// twins: concurrent clients write one and the same value (the ciphertexts must still differ)
		twins, tlen, tclass := scn.Backend == "fsenc" && g.chance(35), pick(g, 1, 17, 100, 300), g.IntN(2)
		if twins {
			scn.Keys = hexAll(g.keyTable(2+g.IntN(3), true))
		}
		for c := 0; c < nc; c++ {
			var cl SClient
			n := 2 + g.IntN(5)
			for i := 0; i < n; i++ {
				op := SOp{Key: g.IntN(len(scn.Keys)), ValLen: pick(g, 1, 2, 17, 100, 300, 1000), Class: g.IntN(2)}
				op.Kind = []string{"set", "get", "delete"}[g.wpick(45, 45, 10)]
				if twins && g.chance(75) {
					op.Kind, op.Twin, op.ValLen, op.Class = "set", 1, tlen, tclass
				}
				cl.Ops = append(cl.Ops, op)
			}
			scn.SClients = append(scn.SClients, cl)
		}
		if g.chance(50) {
			f := DiskFault{OpKind: pick(g, "write", "write", "write", "sync", "create", "close", "rename", "any"), Nth: g.IntN(6), Errno: pick(g, "ENOSPC", "EIO", "CRASH", "CRASH")}
			f.Arg, f.Permille = g.IntN(1001), true
			if f.OpKind == "rename" || g.chance(10) {
				// what a vanished temporary file, a read-only or foreign directory look like
				f.Errno = pick(g, "ENOENT", "EACCES", "EPERM", "EXDEV", "EIO", "CRASH")
			}
			scn.DiskFaults = append(scn.DiskFaults, f)
		}
		var p2 SClient
		for k := range scn.Keys {
			p2.Ops = append(p2.Ops, SOp{Kind: "get", Key: k})
		}
		if g.chance(40) {
			p2.Ops = append(p2.Ops, SOp{Kind: "set", Key: 0, ValLen: 50}, SOp{Kind: "get", Key: 0})
		}
		scn.Phase2 = []SClient{p2}
		if g.chance(20) {
			scn.Sched.StallPct = 5
			scn.Sched.StallNs = []int64{int64(time.Millisecond), int64(time.Second)}
		}
		if profile == "atomic" && g.chance(25) {
			// a disk slower than the backend's operation timeout: calls give up while their operation goes on
			// (stall lengths cannot add up to a timeout exactly, so no select ever sees both cases ready)
			scn.FsTimeoutNs = pick(g, int64(50*time.Millisecond), int64(300*time.Millisecond), int64(2500*time.Millisecond))
			scn.Sched.StallPct = pick(g, 5, 15, 30)
			scn.Sched.StallNs = []int64{int64(time.Millisecond), int64(time.Second), int64(time.Second)}
		}
	}
	if scn.Backend == "fs" || scn.Backend == "fsenc" {
		scn.FsMTime = g.chance(30)
	}
	return scn
}
