package engine

import (
	"bufio"
	"bytes"
	"context"
	"errors"
	"fmt"
	"hash/crc32"
	"io"
	"net/http"
	"net/url"
	"path"
	"reflect"
	"regexp"
	"sort"
	"strconv"
	"strings"
	"sync/atomic"
	"syscall"
	"time"

	"github.com/bartventer/httpcache/verifsim/kit"
)

// originRT is the simulated origin + network, plugged in through
// httpcache.WithUpstream. Responses are composed as wire bytes and parsed by
// the real net/http response reader, so what the cache sees has exactly the
// shape a real client stack produces (HTTP/2-shaped responses are built by
// hand, as they would come out of the h2 transport).
type originRT struct{ r *Run }

var (
	resPathRe  = regexp.MustCompile(`/r(\d+)/`)
	resQueryRe = regexp.MustCompile(`(?:^|&)r(\d+)=`)
)

// normalise a URI reference the way RFC 3986 §6.2.2 prescribes, far enough to
// find the resource marker (harness-side, independent of the SUT).
func identifyResource(u *url.URL) int {
	p := u.EscapedPath()
	p = strings.ReplaceAll(strings.ReplaceAll(p, "%7E", "~"), "%7e", "~")
	p = path.Clean("/" + p)
	if !strings.HasSuffix(p, "/") {
		p += "/"
	}
	if m := resPathRe.FindStringSubmatch(p); m != nil {
		n, _ := strconv.Atoi(m[1])
		return n
	}
	if m := resQueryRe.FindStringSubmatch(u.RawQuery); m != nil {
		n, _ := strconv.Atoi(m[1])
		return n
	}
	return -1
}

var errOrigin = errors.New("sim: connection refused by origin")

func (r *Run) httpTime(d time.Duration) string {
	return r.Sim.Epoch0.Add(d).UTC().Format(http.TimeFormat)
}

// varKeyOf returns the selecting-header fingerprint for the resource's
// current Vary nominations (union over all plans, so that it is stable).
func (r *Run) varKeyOf(res int, h http.Header) string {
	names := map[string]bool{}
	for _, p := range r.Scn.Resources[res].Plans {
		for _, f := range strings.Split(p.Vary, ",") {
			f = http.CanonicalHeaderKey(strings.TrimSpace(f))
			if f != "" && f != "*" {
				names[f] = true
			}
		}
	}
	ks := make([]string, 0, len(names))
	for k := range names {
		ks = append(ks, k)
	}
	sort.Strings(ks)
	var b strings.Builder
	for _, k := range ks {
		b.WriteString(k)
		b.WriteByte('=')
		b.WriteString(strings.Join(h.Values(k), "\x1f"))
		b.WriteByte(';')
	}
	return fmt.Sprintf("%08x", crc32.ChecksumIEEE([]byte(b.String())))
}

func (r *Run) etagFor(res int, varKey, mode string) string {
	return r.etagForVer(res, r.resVer[res], varKey, mode)
}

func (r *Run) etagForVer(res, ver int, varKey, mode string) string {
	t := fmt.Sprintf(`"r%dv%d-%s"`, res, ver, varKey)
	if mode == "weak" {
		return "W/" + t
	}
	return t
}

func (r *Run) lmFor(res int) time.Duration { return r.resLM[res] }

// ccStyled spells a Cache-Control value the way the style says: as it is, one field line per directive, or
// with directive names in mixed case (both mean the same, RFC 9110 §5.3 and RFC 9111 §5.2).
func ccStyled(cc, style string) []string {
	if cc == "" {
		return nil
	}
	switch style {
	case "lines":
		var out []string
		for _, p := range splitList(cc) {
			if p != "" {
				out = append(out, p)
			}
		}
		return out
	case "quoted":
		// delta-seconds arguments in quoted-string form (recipients ought to accept both, RFC 9111 §5.2)
		var out []string
		for _, p := range splitList(cc) {
			k, v, has := strings.Cut(p, "=")
			if _, _, _, valid := parseDelta(v); has && valid && !strings.HasPrefix(v, `"`) {
				p = k + `="` + v + `"`
			}
			out = append(out, p)
		}
		return []string{strings.Join(out, ", ")}
	case "case":
		var out []string
		for _, p := range splitList(cc) {
			k, v, has := strings.Cut(p, "=")
			kb := []byte(k)
			for i := range kb {
				if i%2 == 0 && kb[i] >= 'a' && kb[i] <= 'z' {
					kb[i] -= 32
				}
			}
			if has {
				out = append(out, string(kb)+"="+v)
			} else {
				out = append(out, string(kb))
			}
		}
		return []string{strings.Join(out, ", ")}
	}
	return []string{cc}
}

func etagMatch(inm, etag string) bool {
	strip := func(s string) string { return strings.TrimPrefix(strings.TrimSpace(s), "W/") }
	for _, c := range strings.Split(inm, ",") {
		if strings.TrimSpace(c) == "*" || strip(c) == strip(etag) {
			return true
		}
	}
	return false
}

func makeBody(sid, n, class int) []byte {
	if n <= 0 {
		return nil
	}
	const tokLen = 33
	if n < tokLen {
		n = tokLen
	}
	pay := make([]byte, n-tokLen)
	x := uint32(sid)*2654435761 + 12345
	httpLike := []byte("\r\nHTTP/1.1 200 OK\r\nContent-Length: 5\r\nTransfer-Encoding: chunked\r\n\r\n5\r\nhello\r\n0\r\n\r\n")
	for i := range pay {
		x = x*1664525 + 1013904223
		switch class {
		case 1:
			pay[i] = byte(x >> 24)
		case 2:
			pay[i] = httpLike[i%len(httpLike)]
		default:
			pay[i] = "abcdefghijklmnopqrstuvwxyz0123456789 \n"[(x>>24)%38]
		}
	}
	tok := fmt.Sprintf("<<S%08d L%08d C%08x>>", sid, n, crc32.ChecksumIEEE(pay))
	return append([]byte(tok), pay...)
}

// wire is the simulated connection from the origin: it hands out the scripted
// chunks, yielding to the scheduler (and waiting chunk latency) before every
// chunk after the first, and fails at the scripted byte.
type wire struct {
	r       *Run
	data    []byte
	cuts    []int // absolute end offsets of chunks
	pos     int
	ci      int
	lat     time.Duration
	fault   string
	faultAt int
	first   bool
	done    <-chan struct{}
	ctx     context.Context
	sid     int
	or      *OResp
	call    *UpCall
	eofErr  error // what a premature end of the stream looks like to the reader when no HTTP/1 body reader sits in between
}

func (w *wire) Read(p []byte) (int, error) {
	if len(p) == 0 {
		return 0, nil
	}
	if w.pos >= len(w.data) && (w.fault == "" || w.faultAt >= len(w.data)) {
		// the end of the message came with its last byte (length known, or END_STREAM on the last frame):
		// reporting it takes no further network wait
		return 0, io.EOF
	}
	if !w.first {
		// later chunks arrive in later scheduler steps
		if w.r.Sim.Aborted() {
			return 0, io.ErrUnexpectedEOF
		}
		cancelled := false
		if w.lat > 0 {
			cancelled = w.r.Sim.Sleep(w.lat, w.done, "up:chunk")
		} else {
			w.r.Sim.Yield("up:chunk")
		}
		// (a request whose context has ended gets no further bytes from the network, as with net/http's
		// transport: what had arrived with the header block is all there is)
		if cancelled || (w.ctx != nil && ctxOver(w.ctx)) {
			if w.call != nil && w.call.BodyCancelAt == 0 {
				w.call.BodyCancelAt = w.r.Sim.Now() + 1
			}
			w.r.probe("body-read-after-cancel")
			return 0, fmt.Errorf("sim: reading body: %w", ctxErr(w.ctx))
		}
	}
	w.first = false
	limit := len(w.data)
	if w.fault != "" && w.faultAt < limit {
		limit = w.faultAt
	}
	if w.pos >= limit {
		if w.fault == "reset" {
			w.r.fired("net.reset-mid-stream")
			return 0, &netErr{syscall.ECONNRESET}
		}
		if w.fault == "stall" {
			// the rest of the body never comes: whoever reads on waits until its context ends (or for ever)
			w.r.fired("net.body-stall")
			if w.r.Sim.Sleep(-1, w.done, "up:stall") {
				return 0, fmt.Errorf("sim: reading body: %w", ctxErr(w.ctx))
			}
			return 0, io.ErrUnexpectedEOF
		}
		if w.fault == "eof" {
			w.r.fired("net.premature-eof")
			if w.eofErr != nil {
				return 0, w.eofErr
			}
		}
		return 0, io.EOF
	}
	end := limit
	for w.ci < len(w.cuts) && w.cuts[w.ci] <= w.pos {
		w.ci++
	}
	if w.ci < len(w.cuts) && w.cuts[w.ci] < end {
		end = w.cuts[w.ci]
	}
	n := copy(p, w.data[w.pos:end])
	w.pos += n
	if w.pos >= len(w.data) && w.or != nil {
		w.or.Delivered = true // every byte of the message has been handed to the reader
	}
	return n, nil
}

type netErr struct{ e error }

func (e *netErr) Error() string   { return "read tcp 10.0.0.1:1234->10.0.0.2:80: " + e.e.Error() }
func (e *netErr) Unwrap() error   { return e.e }
func (e *netErr) Timeout() bool   { return false }
func (e *netErr) Temporary() bool { return false }

type h2Body struct {
	io.Reader
}

func (h2Body) Close() error { return nil }

func (o *originRT) RoundTrip(req *http.Request) (*http.Response, error) {
	r := o.r
	if req.Method == "" {
		req = req.Clone(req.Context())
		req.Method = http.MethodGet
	}
	t0 := r.Sim.Now()
	g := r.Sim.Yield("up:start")
	if r.Sim.Aborted() {
		return nil, errors.New("sim: run over")
	}
	call := &UpCall{Gor: g.ID, Owner: g.Owner, OwnerOp: g.OwnerV, Fg: g.ID == g.Owner, TStart: t0, Req: snapReq(req)}
	if dl, ok := req.Context().Deadline(); ok {
		call.HadDeadline = true
		call.Deadline = dl.Sub(r.Sim.Epoch0)
	}
	res := identifyResource(req.URL)
	call.Res = res
	r.mu.Lock()
	call.ID = len(r.Calls)
	if call.Fg {
		if e := r.cur[g.Owner]; e != nil {
			call.OwnerOp = e.OpIdx
		}
	}
	r.Calls = append(r.Calls, call)
	if e := r.exchFor(call.Owner, call.OwnerOp); e != nil {
		e.Calls = append(e.Calls, call)
	}
	var plan *RespPlan
	planIdx := 0
	if res >= 0 && res < len(r.Scn.Resources) {
		rs := &r.Scn.Resources[res]
		planIdx = r.resCnt[res] % len(rs.Plans)
		r.resCnt[res]++
		plan = &rs.Plans[planIdx]
		for i := range r.Scn.UpFaults {
			if uf := &r.Scn.UpFaults[i]; uf.Nth == call.ID {
				cp := *plan
				switch uf.Fault {
				case "status":
					cp.Status, cp.Fault = uf.Status, ""
					cp.No304 = true
				case "stall5xx":
					// an error reply whose body never ends
					cp.Status, cp.Fault, cp.FaultAt, cp.No304 = uf.Status, "stall", uf.At, true
					cp.CC, cp.ExpMode, cp.CCStyle, cp.Framing = "no-store", "", "", ""
					cp.BodyLen = max(cp.BodyLen, 40)
				case "eofhuge":
					// a reply that declares an absurd length and ends after a few bytes
					cp.Fault, cp.FaultAt, cp.HugeCL, cp.Framing = "eof", uf.At, true, ""
					cp.BodyLen = max(cp.BodyLen, 40)
				default:
					cp.Fault, cp.FaultAt = uf.Fault, uf.At
				}
				plan = &cp
			}
		}
		if plan.Change {
			r.resVer[res]++
			r.resLM[res] = r.Sim.Now().Truncate(time.Second)
		}
		// the origin looks at the resource when the request arrives; what it then decides (validators, 304 or not)
		// travels back after the scripted latency, whatever happens to the resource in the meantime
		call.VerAt, call.LMAt = r.resVer[res], r.resLM[res]
	}
	r.mu.Unlock()
	call.SeqStart = r.Sim.Event(g, "up.start", fmt.Sprintf("#%d %s %s inm=%q ims=%q cc=%q res=%d plan=%d", call.ID, req.Method, req.URL, req.Header.Get("If-None-Match"), req.Header.Get("If-Modified-Since"), req.Header.Get("Cache-Control"), res, planIdx))
	end := func(kind string) {
		call.Ended = true
		call.ErrKind = kind
		call.TEnd = r.Sim.Now()
		call.SeqEnd = r.Sim.Event(g, "up.end", fmt.Sprintf("#%d %s", call.ID, kind))
	}
	if plan == nil {
		end("err")
		return nil, errOrigin
	}
	done := req.Context().Done()
	if ctxOver(req.Context()) {
		call.CancelAt = r.Sim.Now()
		end("ctx")
		return nil, ctxErr(req.Context())
	}
	var slot *connSlot
	if r.Scn.MaxConns > 0 {
		var ok bool
		if slot, ok = r.acquireConn(req.Context(), call); !ok {
			call.CancelAt = r.Sim.Now()
			if r.Sim.Aborted() {
				call.ErrKind = "abort"
				return nil, errors.New("sim: run over")
			}
			end("ctx")
			return nil, ctxErr(req.Context())
		}
		defer func() {
			// an exchange that ends without a response body to read gives its connection back at once
			if !slot.handedOver {
				r.releaseConn(slot)
			}
		}()
	}
	if plan.Fault == "hang" {
		r.fired("net.hang")
		cancelled := r.Sim.Sleep(-1, done, "up:hang")
		call.CancelAt = r.Sim.Now()
		if cancelled {
			end("hang-cancel")
			return nil, req.Context().Err()
		}
		call.ErrKind = "abort"
		return nil, errors.New("sim: run over")
	}
	if plan.LatNs > 0 {
		if r.Sim.Sleep(time.Duration(plan.LatNs), done, "up:lat") || ctxOver(req.Context()) {
			call.CancelAt = r.Sim.Now()
			end("ctx")
			return nil, ctxErr(req.Context())
		}
		if r.Sim.Aborted() {
			return nil, errors.New("sim: run over")
		}
	}
	if plan.Fault == "err" {
		r.fired("net.error-before-header")
		end("err")
		return nil, &url.Error{Op: "Get", URL: req.URL.String(), Err: errOrigin}
	}
	resp, or, err := r.compose(g, call, req, res, planIdx, plan)
	if err != nil {
		r.fired("net.reset-in-header")
		end("reset-header")
		return nil, err
	}
	call.Resp = or
	call.Ended = true
	call.TEnd = r.Sim.Now()
	or.TStart, or.TResp = call.TStart, call.TEnd
	or.SeqResp = r.Sim.Event(g, "up.resp", fmt.Sprintf("#%d sid=%d status=%d cc=%q vary=%q len=%d 304=%v", call.ID, or.SID, or.Status, or.Header.Get("Cache-Control"), or.Header.Get("Vary"), len(or.Body), or.Is304))
	call.SeqEnd = or.SeqResp
	if slot != nil && resp.Body != nil && resp.Body != http.NoBody {
		slot.handedOver = true
		resp.Body = &pooledBody{ReadCloser: resp.Body, r: r, slot: slot}
	}
	return resp, nil
}

// connSlot is one connection of the bounded pool. It is in use from the moment the request is sent until the
// response body has been read to its end (or has failed), is closed, or the request's context ends - the
// rules of net/http's transport with MaxConnsPerHost.
type connSlot struct {
	ctx        context.Context
	call       *UpCall
	released   bool
	handedOver bool
}

type pooledBody struct {
	io.ReadCloser
	r    *Run
	slot *connSlot
}

func (b *pooledBody) Read(p []byte) (int, error) {
	n, err := b.ReadCloser.Read(p)
	if err != nil {
		b.r.releaseConn(b.slot)
	}
	return n, err
}

func (b *pooledBody) Close() error {
	b.r.releaseConn(b.slot)
	return b.ReadCloser.Close()
}

func (r *Run) releaseConn(s *connSlot) {
	r.mu.Lock()
	defer r.mu.Unlock()
	if s.released {
		return
	}
	s.released = true
	for i, c := range r.conns {
		if c == s {
			r.conns = append(r.conns[:i], r.conns[i+1:]...)
			break
		}
	}
	if r.connFree != nil {
		close(r.connFree)
		r.connFree = nil
	}
}

// acquireConn waits until the pool has a connection to spare (false: the request's context ended, or the run
// was aborted, first). Waiters that wake together re-apply after a scheduler step each, so who gets the
// connection is the scheduler's decision.
func (r *Run) acquireConn(ctx context.Context, call *UpCall) (*connSlot, bool) {
	for {
		r.mu.Lock()
		// connections whose request context has ended are closed by the transport
		live := r.conns[:0:0]
		for _, c := range r.conns {
			if ctxOver(c.ctx) {
				c.released = true
				continue
			}
			live = append(live, c)
		}
		r.conns = live
		if len(r.conns) < r.Scn.MaxConns {
			s := &connSlot{ctx: ctx, call: call}
			r.conns = append(r.conns, s)
			call.GotConn = true
			r.Faults["net.pooled-call"]++ // (r.mu is held) origin calls made through the bounded pool
			r.mu.Unlock()
			return s, true
		}
		if !call.ConnWait {
			call.ConnWait = true
			r.Faults["net.conn-wait"]++
		}
		if r.connFree == nil {
			r.connFree = make(chan struct{})
		}
		cases := []reflect.SelectCase{
			{Dir: reflect.SelectRecv, Chan: reflect.ValueOf(r.connFree)},
			{Dir: reflect.SelectRecv, Chan: reflect.ValueOf(r.Sim.AbortCh())},
		}
		if d := ctx.Done(); d != nil {
			cases = append(cases, reflect.SelectCase{Dir: reflect.SelectRecv, Chan: reflect.ValueOf(d)})
		}
		for _, c := range r.conns {
			if d := c.ctx.Done(); d != nil {
				cases = append(cases, reflect.SelectCase{Dir: reflect.SelectRecv, Chan: reflect.ValueOf(d)})
			}
		}
		r.mu.Unlock()
		reflect.Select(cases)
		r.Sim.Yield("up:conn-wait")
		if r.Sim.Aborted() || ctxOver(ctx) {
			return nil, false
		}
	}
}

// ctxOver: cancelled, or its deadline has been reached. A latency that ends at the very instant of
// the deadline races with the context's own timer; the deadline decides, so the outcome is a
// function of the scenario and not of goroutine wake-up order.
func ctxOver(ctx context.Context) bool {
	if ctx.Err() != nil {
		return true
	}
	dl, ok := ctx.Deadline()
	return ok && !time.Now().Before(dl)
}

func ctxErr(ctx context.Context) error {
	if err := ctx.Err(); err != nil {
		return err
	}
	return context.DeadlineExceeded
}

func bodyAllowed(method string, status int) bool {
	return method != http.MethodHead && status >= 200 && status != 204 && status != 304
}

func (r *Run) compose(g *kit.Gor, call *UpCall, req *http.Request, res, planIdx int, plan *RespPlan) (*http.Response, *OResp, error) {
	r.mu.Lock()
	r.sidNext++
	sid := r.sidNext
	if plan.Fault == "stall" {
		if r.stallSID == nil {
			r.stallSID = map[int]bool{}
		}
		r.stallSID[sid] = true
		r.Faults["net.stalling-error-reply"]++
	}
	varKey := r.varKeyOf(res, req.Header)
	etag := ""
	if plan.ETag != "" {
		etag = r.etagForVer(res, call.VerAt, varKey, plan.ETag)
	}
	lm := call.LMAt
	ver := call.VerAt
	r.mu.Unlock()

	now := r.Sim.Now()
	status := plan.Status
	if status == 0 {
		status = 200
	}
	is304 := false
	if !plan.No304 && (req.Method == http.MethodGet || req.Method == http.MethodHead) && status >= 200 && status < 300 {
		if inm := req.Header.Get("If-None-Match"); inm != "" {
			if etag != "" && etagMatch(inm, etag) {
				is304 = true
			}
		} else if ims := req.Header.Get("If-Modified-Since"); ims != "" && plan.LMMode == "rel" {
			if t, err := http.ParseTime(ims); err == nil && !r.Sim.Epoch0.Add(lm).After(t) {
				is304 = true
			}
		}
	}
	if is304 {
		status = 304
	}
	if status == 304 {
		is304 = true // however it came about, a 304 is not a representation
	}
	h := http.Header{}
	order := []string{}
	add := func(k, v string) {
		ck := http.CanonicalHeaderKey(k)
		if _, ok := h[ck]; !ok {
			order = append(order, ck)
		}
		h[ck] = append(h[ck], v)
	}
	add("X-Sim-Seq", strconv.Itoa(sid))
	if status != 304 {
		// identifies the representation; a 304 never carries it, so it survives freshening
		add("X-Sim-Body", strconv.Itoa(sid))
	}
	dateT := now
	switch plan.DateMode {
	case "skew":
		dateT = now + time.Duration(plan.DateSkew)*time.Second
		add("Date", r.httpTime(dateT))
	case "absent":
	case "invalid":
		add("Date", "yesterday at noon")
	default:
		add("Date", r.httpTime(dateT))
	}
	for _, line := range ccStyled(plan.CC, plan.CCStyle) {
		add("Cache-Control", line)
	}
	if plan.Age != "" {
		if strings.HasPrefix(plan.Age, "dup:") {
			for _, v := range strings.Split(plan.Age[4:], ",") {
				add("Age", v)
			}
		} else {
			add("Age", plan.Age)
		}
	}
	switch plan.ExpMode {
	case "rel":
		add("Expires", r.httpTime(dateT+time.Duration(plan.ExpDelta)*time.Second))
	case "zero":
		add("Expires", "0")
	case "invalid":
		add("Expires", "soon")
	case "empty":
		add("Expires", "") // present, and not a date: "already expired" (RFC 9111 §5.3)
	}
	switch plan.LMMode {
	case "rel":
		add("Last-Modified", r.httpTime(lm))
	case "invalid":
		add("Last-Modified", "a while ago")
	}
	if etag != "" {
		add("ETag", etag)
	}
	if plan.Vary != "" {
		if plan.VaryLines {
			for _, f := range strings.Split(plan.Vary, ",") {
				if f = strings.TrimSpace(f); f != "" {
					add("Vary", f) // several field lines are one list (RFC 9110 §5.3)
				}
			}
		} else {
			add("Vary", plan.Vary)
		}
	}
	target := func(kind string, tr int) string {
		t := &r.Scn.Resources[tr%len(r.Scn.Resources)]
		switch kind {
		case "rel":
			u := t.Path
			if t.Query != "" {
				u += "?" + rawBytes(t.Query)
			}
			return u
		case "abs", "cross":
			return BuildURL(t, 0)
		case "netpath":
			return strings.TrimPrefix(BuildURL(t, 0), "http:") // network-path reference: //host/path
		}
		return ""
	}
	if plan.Loc != "" {
		add("Location", target(plan.Loc, plan.LocRes))
	}
	if plan.CLoc != "" {
		add("Content-Location", target(plan.CLoc, plan.CLocRes))
	}
	for _, kv := range plan.Extra {
		add(kv[0], strings.ReplaceAll(kv[1], "$SID", strconv.Itoa(sid)))
	}
	for _, kv := range plan.Hop {
		add(kv[0], strings.ReplaceAll(kv[1], "$SID", strconv.Itoa(sid)))
	}
	bare := is304 && plan.Bare304
	if bare {
		// a minimal 304: the date and the validators, nothing to update and nothing that tells it apart
		keep := map[string]bool{"Date": true, "Etag": true, "Last-Modified": true}
		var o2 []string
		for _, k := range order {
			if keep[k] {
				o2 = append(o2, k)
			} else {
				delete(h, k)
			}
		}
		order = o2
	}
	var body []byte
	if bodyAllowed(req.Method, status) {
		body = makeBody(sid, plan.BodyLen, plan.BodyClass)
	}
	or := &OResp{Bare: bare, SID: sid, Call: call, Res: res, PlanIdx: planIdx, Plan: plan, Req: call.Req, Status: status, Body: body, Is304: is304, Version: ver, VarKey: varKey}
	// (an empty body still has framing that can be cut when it is chunked: the last-chunk line and the trailers)
	or.Complete = plan.Fault == "" || (len(body) == 0 && plan.Framing != "chunked")

	framing := plan.Framing
	if framing == "h2" || framing == "h2nolen" {
		resp := &http.Response{
			Status: fmt.Sprintf("%d %s", status, http.StatusText(status)), StatusCode: status,
			Proto: "HTTP/2.0", ProtoMajor: 2, ProtoMinor: 0, Header: h.Clone(), Request: req,
			ContentLength: int64(len(body)), Uncompressed: false,
		}
		for k := range canonHopByHop(resp.Header) {
			if !strings.HasPrefix(k, "Proxy-Auth") {
				resp.Header.Del(k) // connection-specific fields (and what Connection nominates) do not exist in HTTP/2
			}
		}
		if framing == "h2nolen" && bodyAllowed(req.Method, status) {
			resp.ContentLength = -1
		} else if bodyAllowed(req.Method, status) {
			resp.Header.Set("Content-Length", strconv.Itoa(len(body)))
		}
		or.Header = resp.Header.Clone()
		fat := max(plan.FaultAt, 0) // there is no header block on this wire: a fault position is a body offset
		if plan.Fault == "eof" && framing == "h2nolen" && fat < len(body) {
			body = body[:fat]
			or.Body, or.Complete = body, true
		}
		w := &wire{r: r, data: body, cuts: cutsOf(plan.Chunks, 0, len(body)), lat: time.Duration(plan.ChunkLatNs), fault: bodyFault(plan), faultAt: fat, first: true, done: req.Context().Done(), ctx: req.Context(), sid: sid, or: or, call: call}
		if framing == "h2" {
			// a stream that ends before its declared length is an error to an HTTP/2 client, as it is to HTTP/1's
			w.eofErr = io.ErrUnexpectedEOF
		}
		if !bodyAllowed(req.Method, status) || len(body) == 0 {
			or.Delivered = true
		}
		if !bodyAllowed(req.Method, status) {
			resp.Body = http.NoBody
		} else {
			resp.Body = h2Body{w}
		}
		r.mu.Lock()
		r.OResps = append(r.OResps, or)
		r.mu.Unlock()
		return resp, or, nil
	}

	// HTTP/1.x on the wire
	var b bytes.Buffer
	proto := "HTTP/1.1"
	if framing == "h10" || framing == "h10close" {
		proto = "HTTP/1.0"
	}
	fmt.Fprintf(&b, "%s %d %s\r\n", proto, status, http.StatusText(status))
	hasBody := bodyAllowed(req.Method, status)
	switch {
	case framing == "chunked" && hasBody:
		add("Transfer-Encoding", "chunked")
		if len(plan.Trailer) > 0 {
			names := []string{}
			for _, kv := range plan.Trailer {
				names = append(names, kv[0])
			}
			add("Trailer", strings.Join(names, ", "))
		}
	case (framing == "close" || framing == "h10close") && hasBody:
		if framing == "close" {
			add("Connection", "close")
		}
	default:
		if hasBody || req.Method == http.MethodHead {
			if plan.HugeCL && hasBody {
				add("Content-Length", "140737488355328")
				r.fired("net.absurd-content-length")
			} else {
				add("Content-Length", strconv.Itoa(len(makeBodyLen(plan, req.Method, status, sid))))
			}
		}
	}
	for _, k := range order {
		for _, v := range h[k] {
			fmt.Fprintf(&b, "%s: %s\r\n", k, v)
		}
	}
	b.WriteString("\r\n")
	hdrLen := b.Len()
	if hasBody {
		if framing == "chunked" {
			cuts := cutsOf(plan.Chunks, 0, len(body))
			prev := 0
			for _, c := range append(cuts, len(body)) {
				if c > prev {
					fmt.Fprintf(&b, "%x\r\n", c-prev)
					b.Write(body[prev:c])
					b.WriteString("\r\n")
					prev = c
				}
			}
			b.WriteString("0\r\n")
			for _, kv := range plan.Trailer {
				fmt.Fprintf(&b, "%s: %s\r\n", kv[0], kv[1])
			}
			b.WriteString("\r\n")
		} else {
			b.Write(body)
		}
	}
	or.Header = h.Clone()
	data := b.Bytes()
	if plan.Fault == "eof" && hasBody && (framing == "close" || framing == "h10close") && plan.FaultAt >= 0 && hdrLen+plan.FaultAt < len(data) {
		// a close-delimited body that ends early is, to any recipient, a complete shorter body
		data = data[:hdrLen+plan.FaultAt]
		or.Body = append([]byte(nil), data[hdrLen:]...)
		or.Complete = true
	}
	w := &wire{r: r, data: data, cuts: cutsOf(plan.Chunks, hdrLen, len(data)), lat: time.Duration(plan.ChunkLatNs), fault: bodyFault(plan), faultAt: plan.FaultAt, first: true, done: req.Context().Done(), ctx: req.Context(), sid: sid, or: or, call: call}
	if w.fault != "" {
		// FaultAt is relative to the start of the body unless negative (then inside the header block)
		if plan.FaultAt >= 0 {
			w.faultAt = hdrLen + plan.FaultAt
		} else {
			w.faultAt = hdrLen * (-plan.FaultAt % 100) / 100
		}
		if w.faultAt >= len(data) {
			or.Complete = true
		}
	}
	// the first wire read hands over the whole header block (+ first body chunk)
	resp, err := http.ReadResponse(bufio.NewReaderSize(w, 4096), req)
	if err != nil {
		return nil, nil, &url.Error{Op: "Get", URL: req.URL.String(), Err: err}
	}
	// net/http consumes "Connection: close" together with any nomination on that field: a custom field
	// whose nomination did not reach the cache is an ordinary end-to-end field and loses its marker
	hopSet := canonHopByHop(resp.Header)
	for k, vs := range resp.Header {
		if !hopSet[k] {
			for i, v := range vs {
				vs[i] = strings.ReplaceAll(v, "HOPMARK", "E2EMARK")
			}
		}
	}
	or.Header = resp.Header.Clone()
	if resp.Body != nil && resp.Body != http.NoBody {
		resp.Body = &connBody{ReadCloser: resp.Body}
	}
	r.mu.Lock()
	r.OResps = append(r.OResps, or)
	r.mu.Unlock()
	return resp, or, nil
}

// connBody gives the response body the Close of net/http's transport: closing an unread body gives the
// connection up and returns at once (the body http.ReadResponse builds would read on to the end of the message).
type connBody struct {
	io.ReadCloser
	closed atomic.Bool
}

func (b *connBody) Read(p []byte) (int, error) {
	if b.closed.Load() {
		return 0, errors.New("http: read on closed response body")
	}
	return b.ReadCloser.Read(p)
}

func (b *connBody) Close() error {
	b.closed.Store(true)
	return nil
}

func makeBodyLen(plan *RespPlan, method string, status, sid int) []byte {
	if status == 204 || status == 304 || status < 200 {
		return nil
	}
	return makeBody(sid, plan.BodyLen, plan.BodyClass)
}

func bodyFault(p *RespPlan) string {
	if p.Fault == "reset" || p.Fault == "eof" || p.Fault == "stall" {
		return p.Fault
	}
	return ""
}

func cutsOf(chunks []int, start, total int) []int {
	var out []int
	pos := start
	for _, c := range chunks {
		if c <= 0 {
			continue
		}
		pos += c
		if pos >= total {
			break
		}
		out = append(out, pos)
	}
	return out
}
