package engine

import (
	"encoding/json"
	"os"
	"testing"
	"time"
)

func cloneScn(s *Scenario) *Scenario {
	b, _ := json.Marshal(s)
	var c Scenario
	_ = json.Unmarshal(b, &c)
	return &c
}

// candidates yields simpler variants of s, most aggressive first.
func candidates(s *Scenario) []*Scenario {
	var out []*Scenario
	add := func(f func(c *Scenario) bool) {
		c := cloneScn(s)
		if f(c) {
			out = append(out, c)
		}
	}
	// drop clients
	for i := range s.Clients {
		if len(s.Clients) > 1 {
			i := i
			add(func(c *Scenario) bool { c.Clients = append(c.Clients[:i], c.Clients[i+1:]...); return true })
		}
	}
	for i := range s.SClients {
		if len(s.SClients) > 1 {
			i := i
			add(func(c *Scenario) bool { c.SClients = append(c.SClients[:i], c.SClients[i+1:]...); return true })
		}
	}
	// drop operations (halves, then singles)
	for ci := range s.Clients {
		n := len(s.Clients[ci].Ops)
		ci := ci
		if n > 3 {
			add(func(c *Scenario) bool { c.Clients[ci].Ops = c.Clients[ci].Ops[:n/2]; return true })
			add(func(c *Scenario) bool { c.Clients[ci].Ops = c.Clients[ci].Ops[n/2:]; return true })
		}
		for oi := n - 1; oi >= 0; oi-- {
			oi := oi
			if n > 1 {
				add(func(c *Scenario) bool {
					c.Clients[ci].Ops = append(c.Clients[ci].Ops[:oi], c.Clients[ci].Ops[oi+1:]...)
					return true
				})
			}
		}
	}
	for ci := range s.SClients {
		n := len(s.SClients[ci].Ops)
		ci := ci
		for oi := n - 1; oi >= 0; oi-- {
			oi := oi
			if n > 1 {
				add(func(c *Scenario) bool {
					c.SClients[ci].Ops = append(c.SClients[ci].Ops[:oi], c.SClients[ci].Ops[oi+1:]...)
					return true
				})
			}
		}
	}
	// drop faults
	for i := range s.StoreFaults {
		i := i
		add(func(c *Scenario) bool { c.StoreFaults = append(c.StoreFaults[:i], c.StoreFaults[i+1:]...); return true })
	}
	for i := range s.DiskFaults {
		i := i
		add(func(c *Scenario) bool { c.DiskFaults = append(c.DiskFaults[:i], c.DiskFaults[i+1:]...); return true })
	}
	// drop plans / last resource
	for ri := range s.Resources {
		ri := ri
		for pi := len(s.Resources[ri].Plans) - 1; pi >= 0; pi-- {
			pi := pi
			if len(s.Resources[ri].Plans) > 1 {
				add(func(c *Scenario) bool {
					c.Resources[ri].Plans = append(c.Resources[ri].Plans[:pi], c.Resources[ri].Plans[pi+1:]...)
					return true
				})
			}
		}
	}
	if n := len(s.Resources); n > 1 {
		add(func(c *Scenario) bool {
			for _, cl := range c.Clients {
				for _, o := range cl.Ops {
					if o.Res%n == n-1 {
						return false
					}
				}
			}
			for ri := range c.Resources {
				for pi := range c.Resources[ri].Plans {
					p := &c.Resources[ri].Plans[pi]
					if (p.Loc != "" && p.LocRes%n == n-1) || (p.CLoc != "" && p.CLocRes%n == n-1) {
						return false
					}
				}
			}
			c.Resources = c.Resources[:n-1]
			// keep op.Res meaning: indices < n-1 are unchanged modulo n-1 only if < n-1
			for ci := range c.Clients {
				for oi := range c.Clients[ci].Ops {
					c.Clients[ci].Ops[oi].Res %= n
				}
			}
			return true
		})
	}
	// configuration
	add(func(c *Scenario) bool {
		ch := c.Sched.Strategy != "fifo"
		c.Sched.Strategy = "fifo"
		c.Decisions = nil
		return ch
	})
	add(func(c *Scenario) bool { ch := c.Sched.StallPct != 0; c.Sched.StallPct = 0; return ch })
	add(func(c *Scenario) bool {
		ch := c.Backend != "mem"
		c.Backend = "mem"
		c.EncVia = ""
		return ch && c.Engine != "ssim"
	})
	add(func(c *Scenario) bool { ch := c.Logger != "discard"; c.Logger = "discard"; return ch })
	add(func(c *Scenario) bool { ch := c.StoreLat != 0; c.StoreLat = 0; return ch })
	add(func(c *Scenario) bool { ch := c.WChunk != 0 || c.RChunk != 0; c.WChunk, c.RChunk = 0, 0; return ch })
	add(func(c *Scenario) bool { ch := c.SWRSet; c.SWRSet, c.SWRNs = false, 0; return ch })
	// simplify operations
	for ci := range s.Clients {
		for oi := range s.Clients[ci].Ops {
			ci, oi := ci, oi
			o := s.Clients[ci].Ops[oi]
			if o.Poison || o.Read != "" || o.Spelling != 0 || o.CancelNs != 0 {
				add(func(c *Scenario) bool {
					p := &c.Clients[ci].Ops[oi]
					p.Poison, p.Read, p.Spelling, p.CancelNs = false, "", 0, 0
					return true
				})
			}
			if o.CC != "" {
				add(func(c *Scenario) bool { c.Clients[ci].Ops[oi].CC = ""; return true })
			}
			if len(o.Hdr) > 0 {
				add(func(c *Scenario) bool { c.Clients[ci].Ops[oi].Hdr = nil; return true })
			}
			if o.ThinkNs != 0 {
				add(func(c *Scenario) bool { c.Clients[ci].Ops[oi].ThinkNs = 0; return true })
				if o.ThinkNs%int64(time.Second) != 0 {
					add(func(c *Scenario) bool {
						p := &c.Clients[ci].Ops[oi]
						p.ThinkNs = p.ThinkNs / int64(time.Second) * int64(time.Second)
						return true
					})
				}
			}
		}
	}
	// simplify plans
	for ri := range s.Resources {
		for pi := range s.Resources[ri].Plans {
			ri, pi := ri, pi
			p := s.Resources[ri].Plans[pi]
			if len(p.Extra) > 0 || len(p.Hop) > 0 || len(p.Trailer) > 0 || p.Framing != "" || len(p.Chunks) > 0 || p.ChunkLatNs != 0 || p.BodyClass != 0 {
				add(func(c *Scenario) bool {
					q := &c.Resources[ri].Plans[pi]
					q.Extra, q.Hop, q.Trailer, q.Framing, q.Chunks, q.ChunkLatNs, q.BodyClass = nil, nil, nil, "", nil, 0, 0
					return true
				})
			}
			if p.BodyLen > 40 {
				add(func(c *Scenario) bool { c.Resources[ri].Plans[pi].BodyLen = 40; return true })
			}
			if p.LatNs != 0 {
				add(func(c *Scenario) bool { c.Resources[ri].Plans[pi].LatNs = 0; return true })
			}
			if p.Age != "" {
				add(func(c *Scenario) bool { c.Resources[ri].Plans[pi].Age = ""; return true })
			}
			if p.DateMode != "" {
				add(func(c *Scenario) bool { c.Resources[ri].Plans[pi].DateMode = ""; return true })
			}
			if p.Fault != "" {
				add(func(c *Scenario) bool { c.Resources[ri].Plans[pi].Fault = ""; return true })
			}
			if p.Vary != "" {
				add(func(c *Scenario) bool { c.Resources[ri].Plans[pi].Vary = ""; return true })
			}
			if p.Loc != "" || p.CLoc != "" {
				add(func(c *Scenario) bool { q := &c.Resources[ri].Plans[pi]; q.Loc, q.CLoc = "", ""; return true })
			}
			if p.Change || p.No304 {
				add(func(c *Scenario) bool { q := &c.Resources[ri].Plans[pi]; q.Change, q.No304 = false, false; return true })
			}
		}
	}
	add(func(c *Scenario) bool { ch := c.Jitter; c.Jitter = false; return ch })
	return out
}

func size(s *Scenario) int {
	b, _ := json.Marshal(s)
	return len(b)
}

// Shrink minimises a failing scenario while the same property is violated by
// the same oracle rule (and finding signature).
func Shrink(t *testing.T, scn *Scenario, prop, rule, sig string, budget time.Duration) (*Scenario, *Violation, *Run, int) {
	t0 := time.Now()
	best := cloneScn(scn)
	r, jd := Exec(t, best)
	bv := findViolation(jd, prop, rule, sig)
	if bv == nil {
		return nil, nil, nil, 0
	}
	tried := 0
	for improved := true; improved && time.Since(t0) < budget; {
		improved = false
		for _, c := range candidates(best) {
			if time.Since(t0) > budget {
				break
			}
			tried++
			cr, cjd := Exec(t, c)
			if cr.Sim.Ambiguous > 0 {
				continue
			}
			if v := findViolation(cjd, prop, rule, sig); v != nil {
				best, bv, r = c, v, cr
				improved = true
				break
			}
		}
	}
	// freeze the schedule: explicit decisions of the final run
	final := cloneScn(best)
	final.Decisions = append([]int(nil), r.Sim.T.Rec...)
	fr, fjd := Exec(t, final)
	if v := findViolation(fjd, prop, rule, sig); v != nil && fr.Sim.Digest() == r.Sim.Digest() {
		return final, v, fr, tried
	}
	return best, bv, r, tried
}

func shrinkMode(t *testing.T, job *Job) {
	raw, err := os.ReadFile(job.Replay)
	if err != nil {
		t.Fatal(err)
	}
	var rf ReplayFile
	if err := json.Unmarshal(raw, &rf); err != nil {
		t.Fatal(err)
	}
	budget := time.Duration(max(job.BudgetSec, 5)) * time.Second
	scn, v, r, tried := Shrink(t, rf.Scenario, rf.Property, rf.Rule, rf.Sig, budget)
	if scn == nil {
		writeJSON(job.Out, map[string]any{"ok": false})
		return
	}
	out := ReplayFile{Property: rf.Property, Rule: rf.Rule, Sig: v.Sig, Seq: v.Seq, Msg: v.Msg, Digest: r.Sim.Digest(), Seed: rf.Seed, Scenario: scn}
	for _, e := range r.Sim.Log {
		out.EventLog = append(out.EventLog, e.String())
	}
	writeJSON(job.Out, map[string]any{"ok": true, "tried": tried, "replay": out})
}
