//go:build race

package engine

const raceBuild = true
