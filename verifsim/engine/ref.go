package engine

import (
	"math"
	"net/http"
	"strconv"
	"strings"
	"time"
)

// Independent RFC 9111 reference calculators. Durations are int64
// nanoseconds with saturation; inf = math.MaxInt64. Where the RFC leaves
// latitude the functions return an interval [lo, hi].

const (
	inf   = int64(math.MaxInt64)
	sec   = int64(time.Second)
	two31 = int64(1) << 31 // seconds
)

func satAdd(a, b int64) int64 {
	if a == inf || b == inf {
		return inf
	}
	if b > 0 && a > inf-b {
		return inf
	}
	if b < 0 && a < -inf-b {
		return -inf
	}
	return a + b
}

func satMulSec(s int64) int64 {
	if s >= inf/sec {
		return inf
	}
	return s * sec
}

// ---- Cache-Control by meaning ----

type ccMap map[string]string

func splitList(s string) []string {
	var out []string
	var cur strings.Builder
	inq, esc := false, false
	for i := 0; i < len(s); i++ {
		c := s[i]
		switch {
		case esc:
			cur.WriteByte(c)
			esc = false
		case inq && c == '\\':
			cur.WriteByte(c)
			esc = true
		case c == '"':
			cur.WriteByte(c)
			inq = !inq
		case c == ',' && !inq:
			out = append(out, strings.TrimSpace(cur.String()))
			cur.Reset()
		default:
			cur.WriteByte(c)
		}
	}
	out = append(out, strings.TrimSpace(cur.String()))
	return out
}

func unquote(v string) string {
	if len(v) >= 2 && v[0] == '"' && v[len(v)-1] == '"' {
		var b strings.Builder
		in := v[1 : len(v)-1]
		for i := 0; i < len(in); i++ {
			if in[i] == '\\' && i+1 < len(in) {
				i++
			}
			b.WriteByte(in[i])
		}
		return b.String()
	}
	return v
}

func parseCC(h http.Header) ccMap {
	m := ccMap{}
	if h == nil {
		return m
	}
	for _, line := range h.Values("Cache-Control") {
		for _, part := range splitList(line) {
			if part == "" {
				continue
			}
			k, v, _ := strings.Cut(part, "=")
			k = strings.ToLower(strings.TrimSpace(k))
			// a directive given twice: the first occurrence counts (RFC 9111 §4.2.1) - except that no-cache without
			// an argument, the stricter form, is not undone by a qualified one next to it
			if _, dup := m[k]; !dup {
				m[k] = unquote(strings.TrimSpace(v))
			} else if k == "no-cache" && strings.TrimSpace(v) == "" {
				m[k] = ""
			}
		}
	}
	return m
}

func (c ccMap) has(k string) bool { _, ok := c[k]; return ok }

// delta returns the delta-seconds argument as an interval in seconds.
// valid=false: present but not a non-negative integer.
func (c ccMap) delta(k string) (lo, hi int64, present, valid bool) {
	v, ok := c[k]
	if !ok {
		return 0, 0, false, false
	}
	return parseDelta(v)
}

func parseDelta(v string) (lo, hi int64, present, valid bool) {
	present = true
	if v == "" {
		return 0, 0, true, false
	}
	for i := 0; i < len(v); i++ {
		if v[i] < '0' || v[i] > '9' {
			return 0, 0, true, false
		}
	}
	n, err := strconv.ParseInt(v, 10, 64)
	if err != nil || n >= two31 {
		// too large: "2^31 or the greatest representable"
		return two31, inf, true, true
	}
	return n, n, true, true
}

var knownRespDirectives = map[string]bool{
	"max-age": true, "s-maxage": true, "no-cache": true, "no-store": true, "no-transform": true,
	"must-revalidate": true, "proxy-revalidate": true, "must-understand": true, "public": true, "private": true,
	"immutable": true, "stale-while-revalidate": true, "stale-if-error": true,
}

// ---- dates ----

func parseDate(v string) (time.Time, bool) {
	if v == "" {
		return time.Time{}, false
	}
	t, err := http.ParseTime(v)
	if err != nil {
		return time.Time{}, false
	}
	return t, true
}

// RFC 9110 §15.1: status codes defined as heuristically cacheable.
var heuristicStatus = map[int]bool{200: true, 203: true, 204: true, 206: true, 300: true, 301: true, 308: true, 404: true, 405: true, 410: true, 414: true, 501: true}

// IANA-assigned status codes (anything else cannot be "understood" by any implementation).
var assignedStatus = func() map[int]bool {
	m := map[int]bool{}
	for _, r := range [][2]int{{100, 104}, {200, 208}, {226, 226}, {300, 308}, {400, 418}, {421, 426}, {428, 429}, {431, 431}, {451, 451}, {500, 508}, {510, 511}} {
		for i := r[0]; i <= r[1]; i++ {
			m[i] = true
		}
	}
	return m
}()

// lifetime returns the freshness lifetime interval (ns) of a stored response
// with the given (served) header fields.
func lifetime(h http.Header, status int) (lo, hi int64, src string) {
	cc := parseCC(h)
	date, dateOK := parseDate(h.Get("Date"))
	expLife := func() (int64, int64) {
		ev := h.Values("Expires")
		if len(ev) == 0 {
			return 0, 0
		}
		exp, ok := parseDate(ev[0])
		if !ok || len(ev) > 1 {
			return 0, 0 // invalid: already expired
		}
		if !dateOK {
			return 0, inf
		}
		d := int64(exp.Sub(date))
		if d < 0 {
			d = 0
		}
		return d, d
	}
	if cc.has("max-age") {
		l, h2, _, valid := cc.delta("max-age")
		if valid {
			return satMulSec(l), satMulSec(h2), "max-age"
		}
		// invalid max-age (non-integer, negative): RFC 9111 §4.2.1 encourages treating the response as
		// stale, but ignoring the broken directive is tolerated: the upper bound is the lifetime the
		// other rules would give, the lower bound 0.
		h3 := h.Clone()
		h3.Del("Cache-Control")
		rest := []string{}
		for k, v := range cc {
			if k != "max-age" {
				if v != "" {
					k += "=" + v
				}
				rest = append(rest, k)
			}
		}
		if len(rest) > 0 {
			h3.Set("Cache-Control", strings.Join(rest, ", "))
		}
		_, eh, _ := lifetime(h3, status)
		return 0, eh, "max-age-invalid"
	}
	if len(h.Values("Expires")) > 0 {
		l, h2 := expLife()
		return l, h2, "expires"
	}
	if !(heuristicStatus[status] || cc.has("public")) {
		return 0, 0, "none"
	}
	lm, ok := parseDate(h.Get("Last-Modified"))
	if !ok || !dateOK || !lm.Before(date) {
		return 0, 0, "none"
	}
	d := int64(date.Sub(lm))
	hi = d / 10
	if hi%sec != 0 {
		hi = (hi/sec + 1) * sec
	}
	return d / 100, hi, "heuristic"
}

// ageValue returns the interval (ns) for the Age field of the stored response.
func ageValue(vals []string) (lo, hi int64) {
	if len(vals) == 0 {
		return 0, 0
	}
	var all []string
	for _, v := range vals {
		for _, p := range strings.Split(v, ",") {
			all = append(all, strings.TrimSpace(p))
		}
	}
	if len(all) == 1 {
		l, h, _, valid := parseDelta(all[0])
		if valid {
			return satMulSec(l), satMulSec(h)
		}
		return 0, 0 // invalid: ignored
	}
	// several members: invalid; ignoring it or using any member is tolerated
	lo, hi = 0, 0
	for _, v := range all {
		_, h, _, valid := parseDelta(v)
		if valid && satMulSec(h) > hi {
			hi = satMulSec(h)
		}
	}
	return lo, hi
}

// currentAge computes the current_age interval (ns) per RFC 9111 §4.2.3 from
// the harness's own timestamps: tStart/tResp of the upstream call whose
// response (or 304) last defined the stored header fields; nowLo/nowHi bound
// the instant at which the cache computed it.
func currentAge(ageVals []string, dateHdr string, epoch time.Time, tStart, tResp, nowLo, nowHi time.Duration) (lo, hi int64) {
	avLo, avHi := ageValue(ageVals)
	var apparent int64
	if d, ok := parseDate(dateHdr); ok {
		apparent = int64(epoch.Add(tResp).Sub(d))
		if apparent < 0 {
			apparent = 0
		}
	}
	delay := int64(tResp - tStart)
	if delay < 0 {
		delay = 0
	}
	cLo, cHi := satAdd(avLo, delay), satAdd(avHi, delay)
	iLo, iHi := max(apparent, cLo), max(apparent, cHi)
	rLo, rHi := int64(nowLo-tResp), int64(nowHi-tResp)
	if rLo < 0 {
		rLo = 0
	}
	if rHi < 0 {
		rHi = 0
	}
	return satAdd(iLo, rLo), satAdd(iHi, rHi)
}

// safe (RFC 9110 §9.2.1) methods registered with IANA.
var safeMethods = map[string]bool{"GET": true, "HEAD": true, "OPTIONS": true, "TRACE": true, "PROPFIND": true, "REPORT": true, "SEARCH": true, "PRI": true, "QUERY": true}

func canonHopByHop(h http.Header) map[string]bool {
	m := map[string]bool{"Connection": true, "Proxy-Connection": true, "Keep-Alive": true, "Te": true, "Transfer-Encoding": true, "Upgrade": true, "Proxy-Authenticate": true, "Proxy-Authentication-Info": true, "Proxy-Authorization": true, "Trailer": true}
	for _, line := range h.Values("Connection") {
		for _, f := range strings.Split(line, ",") {
			f = http.CanonicalHeaderKey(strings.TrimSpace(f))
			if f != "" {
				m[f] = true
			}
		}
	}
	return m
}
