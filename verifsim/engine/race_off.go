//go:build !race

package engine

const raceBuild = false
