package engine

import (
	"bytes"
	"fmt"
	"net/http"
	"reflect"
	"regexp"
	"sort"
	"strconv"
	"strings"
	"time"
)

type Violation struct {
	Prop   string `json:"property"`
	Rule   string `json:"rule"`
	Seq    uint64 `json:"seq"`
	Client int    `json:"client"`
	Op     int    `json:"op"`
	Msg    string `json:"msg"`
	// Sig identifies the finding class: rule plus discriminating features of
	// the scenario; used to match entries of known_findings.json.
	Sig string `json:"sig"`
}

type Judged struct {
	Violations []Violation
	Judgements map[string]int // "<prop>/<rule>" -> number of times the rule made a judgement
	Sig        []string       // run signature elements (for distinct_nontrivial)
}

func (j *Judged) count(prop, rule string) { j.Judgements[prop+"/"+rule]++ }

func (j *Judged) fail(prop, rule string, e *Exch, sig, format string, a ...any) {
	v := Violation{Prop: prop, Rule: rule, Msg: fmt.Sprintf(format, a...), Sig: rule}
	if sig != "" {
		v.Sig = rule + ":" + sig
	}
	if e != nil {
		v.Seq, v.Client, v.Op = e.SeqRet, e.Client, e.OpIdx
		if v.Seq == 0 {
			v.Seq = e.SeqInv
		}
	}
	j.Violations = append(j.Violations, v)
}

// cls is what the recorded history says happened in one exchange.
type cls struct {
	e      *Exch
	B, H   *OResp
	fg, bg []*UpCall
	stored bool    // a stored representation was returned
	reply  *UpCall // fg call whose own answer was returned
	fg304  *UpCall // fg call answered 304 (validation succeeded)
	fgFail *UpCall // fg call that failed or answered 5xx/4xx
	synth  bool    // neither token nor origin sequence: synthesised by the cache
	bodyOf *OResp  // set when the body token names another response than X-Sim-Body
	status []string
	reqCC  ccMap
	method string
	hdr    http.Header // effective stored header fields as served
	// age / lifetime of the served stored response
	ageLo, ageHi   int64
	ageAtRetLo     int64
	lifeLo, lifeHi int64
	lifeSrc        string
	haveAge        bool
}

func (r *Run) orespBySID() map[int]*OResp {
	m := make(map[int]*OResp, len(r.OResps))
	for _, o := range r.OResps {
		m[o.SID] = o
	}
	return m
}

func bodySID(b []byte) int {
	m := tokRe.FindSubmatch(b)
	if m == nil || !bytes.HasPrefix(b, []byte("<<S")) {
		return 0
	}
	n, _ := strconv.Atoi(string(m[1]))
	return n
}

func inCalls(cs []*UpCall, c *UpCall) bool {
	for _, x := range cs {
		if x == c {
			return true
		}
	}
	return false
}

func (r *Run) classify(e *Exch, by map[int]*OResp) *cls {
	c := &cls{e: e, reqCC: parseCC(e.Req.Header), method: e.Req.Method}
	for _, u := range e.Calls {
		if u.Fg {
			c.fg = append(c.fg, u)
		} else {
			c.bg = append(c.bg, u)
		}
	}
	for _, u := range c.fg {
		switch {
		case u.Resp != nil && u.Resp.Is304:
			c.fg304 = u
		case u.Resp == nil || u.Resp.Status >= 400:
			c.fgFail = u
		}
	}
	if e.Header == nil {
		return c
	}
	c.status = e.Header.Values("X-Httpcache-Status")
	if v := e.Header.Get("X-Sim-Body"); v != "" {
		n, _ := strconv.Atoi(v)
		c.B = by[n]
	}
	if sid := bodySID(e.Body); sid != 0 && (c.B == nil || c.B.SID != sid) {
		c.bodyOf = by[sid] // the body bytes belong to another response than the header fields say
		if c.B == nil {
			c.B = c.bodyOf
		}
	}
	if v := e.Header.Get("X-Sim-Seq"); v != "" {
		n, _ := strconv.Atoi(v)
		c.H = by[n]
	}
	if c.H == nil && c.B != nil {
		c.H = c.B
	}
	switch {
	case c.B == nil && c.H == nil:
		c.synth = true
	case c.B != nil && inCalls(c.fg, c.B.Call):
		c.reply = c.B.Call
	case c.B != nil:
		c.stored = true
	case c.H != nil && c.H.Is304 && inCalls(c.fg, c.H.Call) && e.Status != 304:
		c.stored = true // bodiless stored response freshened by this exchange's 304
	case c.H != nil && inCalls(c.fg, c.H.Call):
		c.reply = c.H.Call
	case c.H != nil:
		c.stored = true
	}
	if c.stored {
		c.hdr = e.Header
		hv := c.H
		if c.fg304 != nil && c.H != nil && c.H.Call == c.fg304 {
			// validated in this exchange: age restarts from the 304; not needed by rules on unvalidated reuse
			hv = c.H
		}
		dateFor := ""
		if hv != nil {
			// the Age field stored with the response: the one of the last 304 if it carried one, else whatever an
			// earlier link of the chain (the response itself or an earlier 304) left in the stored header fields
			cands := [][]string{}
			if av := hv.Header.Values("Age"); len(av) > 0 {
				cands = append(cands, av)
			} else {
				cands = append(cands, nil)
				if c.B != nil && hv != c.B {
					if av := c.B.Header.Values("Age"); len(av) > 0 {
						cands = append(cands, av)
					}
					// (any 304 for the resource in between, not only those of the strict validation chain: one that
					// answered a request carrying the client's own conditional next to the stored validators may
					// have been merged as well; more candidates only widen the interval)
					for _, o := range r.OResps {
						if o.Is304 && o.Res == c.B.Res && o.SeqResp > c.B.SeqResp && o.SeqResp < hv.SeqResp {
							if av := o.Header.Values("Age"); len(av) > 0 {
								cands = append(cands, av)
							}
						}
					}
				}
			}
			// the Date the age is reckoned from: the one the header provenance carried, or - if it had none that can
			// be used - the time it was received (RFC 9110 §6.6.1), whatever the served copy now shows
			dateFor = hv.Header.Get("Date")
			if _, ok := parseDate(dateFor); !ok {
				dateFor = r.httpTime(hv.TResp)
			}
			first := true
			for _, av := range cands {
				if l2, _ := currentAge(av, dateFor, r.Sim.Epoch0, hv.TStart, hv.TResp, e.TRetRaw, e.TRetRaw); first || l2 < c.ageAtRetLo {
					c.ageAtRetLo = l2
				}
				lo, hi := currentAge(av, dateFor, r.Sim.Epoch0, hv.TStart, hv.TResp, e.TInv, e.TRetRaw)
				if first {
					c.ageLo, c.ageHi, first = lo, hi, false
				} else {
					c.ageLo, c.ageHi = min(c.ageLo, lo), max(c.ageHi, hi)
				}
			}
			c.haveAge = true
		}
		st := e.Status
		lh := e.Header
		if dateFor != "" && lh.Get("Date") != dateFor {
			// "Expires minus Date" is reckoned with the Date the origin sent (or the time of receipt if it sent
			// none that can be used), whatever the served copy shows
			lh = e.Header.Clone()
			lh.Set("Date", dateFor)
		}
		if v, ok := parseCC(e.Header)["no-cache"]; ok && v != "" && c.B != nil {
			// fields named by a qualified no-cache are withheld from the caller but still stored: freshness is
			// a matter of the stored header fields
			lh = lh.Clone()
			eff, _ := r.effectiveStored(c.B, e.SeqInv)
			for _, f := range strings.Split(v, ",") {
				f = http.CanonicalHeaderKey(strings.TrimSpace(f))
				if _, have := lh[f]; !have && len(eff[f]) > 0 {
					lh[f] = eff[f]
				}
			}
		}
		c.lifeLo, c.lifeHi, c.lifeSrc = lifetime(lh, st)
	}
	return c
}

// bareBefore: the origin answered a validation of this exchange's resource with a minimal 304 at or before
// this exchange.
func (r *Run) bareBefore(e *Exch) bool {
	res := e.Op.Res % len(r.Scn.Resources)
	for _, o := range r.OResps {
		if o.Bare && o.Res == res && (e.SeqRet == 0 || o.SeqResp <= e.SeqRet) {
			return true
		}
	}
	return false
}

// tainted: an injected store fault returned mutated (possibly still decodable) bytes for this
// exchange's URI at or before this exchange.
func (r *Run) tainted(e *Exch) bool {
	for _, s := range r.Store {
		if s.Seq > e.SeqRet && e.SeqRet != 0 {
			break
		}
		switch s.Fault {
		case "trunc", "flip", "corpus", "foreign":
			if ex := r.exchFor(s.Owner, s.OwnerOp); ex != nil && ex.Op.Res%len(r.Scn.Resources) == e.Op.Res%len(r.Scn.Resources) {
				return true
			}
		}
	}
	return false
}

func (c *cls) guard(r *Run) int64 {
	if r.Scn.Jitter {
		return sec
	}
	return 0
}

// staleForSure / freshForSure with the guard band of jittered runs.
func (c *cls) staleForSure(r *Run) bool {
	return c.haveAge && c.lifeHi != inf && c.ageLo >= satAdd(c.lifeHi, c.guard(r))
}
func (c *cls) freshForSure(r *Run) bool {
	// "fresh by more than a second" (the margin of C09): a cache may round lifetimes to whole seconds
	return c.haveAge && c.ageHi != inf && satAdd(c.ageHi, sec) < c.lifeLo
}

func ns(d int64) string {
	if d == inf {
		return "inf"
	}
	return time.Duration(d).String()
}

var hopMark = regexp.MustCompile(`HOPMARK`)

// Judge evaluates every monitor over the recorded history.
func Judge(r *Run) *Judged {
	r.judging, r.lineageEnd = true, map[*UpCall]uint64{}
	j := &Judged{Judgements: map[string]int{}}
	by := r.orespBySID()
	cl := make([]*cls, len(r.Exchs))
	for i, e := range r.Exchs {
		cl[i] = r.classify(e, by)
	}
	for _, c := range cl {
		if !c.e.Returned {
			continue
		}
		judgeFailOpen(r, j, c)
		if r.bareBefore(c.e) {
			// a minimal 304 (no provenance marker) has been merged into what is stored for this resource: which
			// response's times and fields a served copy reflects can no longer be read off it; only the
			// expected-hit rules (below, history-based) speak about such exchanges
			continue
		}
		if c.e.Header == nil || r.tainted(c.e) {
			// bytes handed to the cache by an injected store fault may decode into anything: content rules
			// are off for exchanges on that URI from the mutated read onwards (fail-open rules stay on)
			continue
		}
		judgeFreshness(r, j, c)
		judgeValidation(r, j, c, by)
		judgeVary(r, j, c)
		judgeFidelity(r, j, c)
		judgeStatusAge(r, j, c)
		judgeSIE(r, j, c, by)
		judgeOIC(r, j, c)
		judgeSWR(r, j, c)
		judgeServedForbidden(r, j, c)
	}
	judgeHang(r, j)
	judgeStoreWrites(r, j, by)
	judgeIncompleteWrites(r, j)
	judgeInvalidation(r, j, cl)
	judgeExpectedHits(r, j, cl, by)
	judgeReplaced(r, j, cl, by)
	judgeOwnership(r, j, cl)
	judgeGrowth(r, j)
	judgeTamper(r, j, cl)
	// C15 (whole stack): after a write failure or a kill, what is served from the store is still byte-exact
	if firedPrefix(r.Faults, "disk.e") || r.Crashes > 0 {
		for _, c := range cl {
			if c.stored && c.B != nil {
				j.count("C15", "served-torn")
			}
		}
		for _, v := range j.Violations {
			if v.Prop == "C05" && v.Rule == "stored-copy-differs" {
				v.Prop, v.Rule = "C15", "served-torn"
				v.Sig = "served-torn:" + strings.TrimPrefix(v.Sig, "stored-copy-differs:")
				j.Violations = append(j.Violations, v)
			}
		}
	}
	if len(r.LeakStacks) > 0 {
		j.count("C20", "goroutine-leak")
		first := r.LeakStacks[0]
		if len(first) > 1500 {
			first = first[:1500]
		}
		j.fail("C20", "goroutine-leak", nil, "", "%d goroutine(s) of the system under test still exist after every origin call ended and every timer fired:\n%s", len(r.LeakStacks), first)
	}
	sort.SliceStable(j.Violations, func(a, b int) bool { return j.Violations[a].Seq < j.Violations[b].Seq })
	return j
}

// ---------------- C10 ----------------

func judgeFailOpen(r *Run, j *Judged, c *cls) {
	e := c.e
	j.count("C10", "panic")
	if e.Panic != "" {
		first := e.Panic
		if i := strings.IndexByte(first, '\n'); i > 0 {
			first = first[:i]
		}
		j.fail("C10", "panic", e, panicSite(e.Panic), "RoundTrip panicked: %s", e.Panic)
		return
	}
	j.count("C10", "nil-nil")
	if e.NilNil {
		j.fail("C10", "nil-nil", e, "", "RoundTrip returned neither a response nor an error")
	}
	if e.Both {
		j.fail("C10", "both", e, "", "RoundTrip returned a response together with an error")
	}
	if e.Err != "" {
		j.count("C10", "error-without-origin-failure")
		originFailed := false
		for _, u := range c.fg {
			if u.ErrKind != "" {
				originFailed = true
			}
		}
		if !originFailed && !(e.ErrCtx && e.Op.CancelNs != 0) {
			j.fail("C10", "error-without-origin-failure", e, "", "RoundTrip returned error %q although no origin call of this exchange failed (fg calls: %d)", e.Err, len(c.fg))
		}
	}
	// a store fault in this exchange must not keep the client from the origin's correct answer
	var faulted *StoreOp
	for _, s := range e.Store {
		if s.Fg && (s.Fault == "err" || s.Fault == "notexist" || s.Fault == "err-applied" || (s.Fault == "corpus" && undecodable(s)) || (s.Fault == "trunc" && undecodable(s))) {
			faulted = s
			break
		}
	}
	if faulted != nil && faulted.Kind == "get" && e.Err == "" && e.Req.Method == "GET" && !c.reqCC.has("only-if-cached") {
		j.count("C10", "wrong-after-store-fault")
		// the faulted read hid the stored data: the answer must be the origin's of this exchange
		if !faulted.IsIndex || true {
			// which read was hit decides what the cache could still know; a failed index read or a failed entry read both force a miss
			usedStoreAfter := false
			for _, s := range e.Store {
				// (before or after the faulted read: an index read may also fail after the entry was read and
				// validated - the cache then still holds what it read)
				if s.Fg && s.Kind == "get" && s != faulted && s.Fault == "" && s.Err == "" && !s.IsIndex {
					usedStoreAfter = true
				}
				if s.Fg && s.Kind == "get" && !s.IsIndex && s.Err == "" && s.Seq < faulted.Seq {
					usedStoreAfter = true // the entry had been read before the fault struck: the fault hid nothing from this exchange
				}
			}
			if c.stored && !usedStoreAfter && faulted.Fault != "err-applied" {
				j.fail("C10", "wrong-after-store-fault", e, faulted.Fault, "store %s of %q failed (%s) yet a stored response (sid %d) was returned", faulted.Kind, faulted.Key, faulted.Fault, sidOf(c.B))
			}
		}
	}
	if c.reply != nil && c.reply.Resp != nil && !c.reply.Resp.Complete && e.BodyRead && e.Err == "" {
		// the origin's message was cut short in a way its framing reveals (declared length, chunked coding, reset):
		// the caller reading the forwarded body must see the failure, not a clean end after a prefix
		j.count("C05", "miss-body-differs")
		if e.BodyErr == "" && len(e.Body) < len(c.reply.Resp.Body) {
			j.fail("C05", "miss-body-differs", e, "cut-short-clean-end", "the origin's message (sid %d, %d body bytes) was cut short on the wire, yet the forwarded body ended without an error after %d bytes", c.reply.Resp.SID, len(c.reply.Resp.Body), len(e.Body))
		}
	}
	if c.reply != nil && c.reply.Resp != nil && c.reply.Resp.Complete && e.BodyRead && c.B != nil && e.Op.CancelNs == 0 && !r.tainted(e) {
		// (after a store read that an injected fault has changed, the provenance marker of what is served may
		// itself be one of the changed bytes)
		j.count("C05", "miss-body-differs")
		if e.BodyErr != "" || !bytes.Equal(e.Body, c.B.Body) {
			j.fail("C05", "miss-body-differs", e, "", "response forwarded from the origin (sid %d) has body len=%d err=%q, origin sent len=%d", c.B.SID, len(e.Body), e.BodyErr, len(c.B.Body))
		}
	}
}

func undecodable(s *StoreOp) bool {
	v := s.Val
	if s.IsIndex || !strings.Contains(s.Key, "#") {
		t := bytes.TrimSpace(v)
		return len(t) == 0 || t[0] != '['
	}
	// an entry: undecodable by construction if cut inside the metadata line or empty
	return len(v) == 0 || !bytes.Contains(v, []byte("\n"))
}

func sidOf(o *OResp) int {
	if o == nil {
		return 0
	}
	return o.SID
}

var panicSiteRe = regexp.MustCompile(`httpcache[^\s(]*\.([A-Za-z0-9_.()*]+)\(`)

// panicSite extracts the innermost function of the repository on the panic stack.
func panicSite(p string) string {
	lines := strings.Split(p, "\n")
	for _, ln := range lines[1:] {
		if strings.Contains(ln, "verifsim/") || !strings.Contains(ln, "bartventer/httpcache") || strings.HasPrefix(ln, "\t") {
			continue
		}
		if i := strings.LastIndexByte(ln, '('); i > 0 {
			ln = ln[:i]
		}
		if i := strings.LastIndexByte(ln, '/'); i >= 0 {
			ln = ln[i+1:]
		}
		return ln
	}
	return ""
}

func judgeHang(r *Run, j *Judged) {
	j.count("C10", "hang")
	if !r.Sim.Hung {
		return
	}
	for _, e := range r.Exchs {
		if !e.Returned && e.Epoch == r.Sim.Epoch() {
			// is an origin call of this exchange legitimately still pending?
			pending := false
			for _, u := range e.Calls {
				if u.Fg && !u.Ended {
					pending = true
					if u.ConnWait && !u.GotConn {
						// not the origin: the pool. Nothing runs any more, so whoever holds the connections will
						// never give them back - responses the cache received, did not hand on and did not close
						// (a caller closes what it gets; a request whose context ends loses its connection)
						held := []string{}
						leak := len(r.conns) > 0
						for _, c := range r.conns {
							held = append(held, fmt.Sprintf("#%d", c.call.ID))
							// a holder whose origin has not answered yet, or whose response another caller is still
							// entitled to (its round trip has not returned), is not a leak of the cache's
							he := r.exchFor(c.call.Owner, c.call.OwnerOp)
							if !c.call.Ended || (he != nil && he != e && !he.Returned) {
								leak = false
							}
						}
						if !leak {
							continue
						}
						j.fail("C10", "hang:conn-leak", e, "", "RoundTrip waits for ever for one of the %d connection(s) the upstream transport allows: held by the unclosed response(s) of origin call(s) %s (virtual time %s)", r.Scn.MaxConns, strings.Join(held, ","), r.Sim.Now())
					}
				}
			}
			if pending && e.Op.CancelNs == 0 {
				continue // waiting for an origin that never answers, without a deadline: that is the caller's choice
			}
			j.fail("C10", "hang", e, "", "RoundTrip did not return although every origin call of the exchange has ended (virtual time %s)", r.Sim.Now())
		}
	}
}

// ---------------- C01 ----------------

func judgeFreshness(r *Run, j *Judged, c *cls) {
	e := c.e
	if !c.stored || len(c.fg) > 0 || c.method != "GET" || !c.haveAge {
		return
	}
	j.count("C01", "served-stale")
	if c.freshForSure(r) {
		r.probe("served-fresh-" + c.lifeSrc)
	}
	if !c.staleForSure(r) {
		return
	}
	stale := c.ageLo - c.lifeHi
	if c.reqCC.has("only-if-cached") {
		r.probe("served-stale-only-if-cached")
		return
	}
	if c.reqCC.has("max-stale") {
		if c.reqCC["max-stale"] == "" {
			r.probe("served-stale-max-stale")
			return
		}
		if _, hi, _, valid := c.reqCC.delta("max-stale"); valid && stale <= satAdd(satMulSec(hi), c.guard(r)) {
			r.probe("served-stale-max-stale")
			return
		}
	}
	scc := parseCC(e.Header)
	if _, hi, p, valid := scc.delta("stale-while-revalidate"); p && valid && stale <= satAdd(satMulSec(hi), c.guard(r)) {
		r.probe("served-stale-swr")
		return
	}
	sig := c.lifeSrc
	if c.ageLo >= satMulSec(two31) || c.lifeHi >= satMulSec(two31) {
		sig += "+huge"
	}
	j.fail("C01", "served-stale", e, sig, "stored response sid=%d served without contacting the origin although stale: age>=%s lifetime<=%s (%s); Cache-Control=%q Date=%q Expires=%q Last-Modified=%q origin-Age=%v request-cc=%q",
		sidOf(c.B), ns(c.ageLo), ns(c.lifeHi), c.lifeSrc, e.Header.Get("Cache-Control"), e.Header.Get("Date"), e.Header.Get("Expires"), e.Header.Get("Last-Modified"), c.H.Header.Values("Age"), e.Req.Header.Get("Cache-Control"))
}

// ---------------- C02 ----------------

func reqWithout(h http.Header, drop ...string) http.Header {
	o := h.Clone()
	for _, d := range drop {
		o.Del(d)
	}
	return o
}

func judgeValidation(r *Run, j *Judged, c *cls, by map[int]*OResp) {
	e := c.e
	// the caller's request object is never modified
	j.count("C02", "client-request-mutated")
	if e.Req.Method != e.ReqAfter.Method || e.Req.RawMethod != e.ReqAfter.RawMethod || e.Req.URL != e.ReqAfter.URL || e.Req.Host != e.ReqAfter.Host ||
		!reflect.DeepEqual(e.Req.Header, e.ReqAfter.Header) || e.Req.Ctx != e.ReqAfter.Ctx {
		j.fail("C02", "client-request-mutated", e, "", "the client's *http.Request changed during RoundTrip: method before=%q after=%q header before=%v after=%v", e.Req.RawMethod, e.ReqAfter.RawMethod, e.Req.Header, e.ReqAfter.Header)
	}
	// every conditional request built by the cache = client's request + stored validators
	for _, u := range e.Calls {
		inm, ims := u.Req.Header.Get("If-None-Match"), u.Req.Header.Get("If-Modified-Since")
		cinm, cims := e.Req.Header.Get("If-None-Match"), e.Req.Header.Get("If-Modified-Since")
		if (inm == cinm && ims == cims) || c.method != "GET" {
			continue
		}
		j.count("C02", "validation-request-wrong")
		rest := reqWithout(u.Req.Header, "If-None-Match", "If-Modified-Since")
		want := reqWithout(e.Req.Header, "If-None-Match", "If-Modified-Since")
		if !reflect.DeepEqual(rest, want) || u.Req.Method != e.Req.Method || u.Req.URL != e.Req.URL {
			j.fail("C02", "validation-request-wrong", e, "", "validation request differs from the client's request beyond the validators: sent %v %s, client %v %s", rest, u.Req.URL, want, e.Req.URL)
		}
		// the validators are those of a response the origin really sent for this resource
		okINM := inm == "" || inm == cinm
		okIMS := ims == "" || ims == cims
		for _, o := range r.OResps {
			if o.Res != u.Res || o.SeqResp > u.SeqStart {
				continue
			}
			if o.Header.Get("Etag") == inm {
				okINM = true
			}
			if o.Header.Get("Last-Modified") == ims {
				okIMS = true
			}
		}
		for _, st := range e.Store {
			switch st.Fault {
			case "trunc", "flip", "corpus", "foreign":
				okINM, okIMS = true, true // the store handed this exchange (or its background goroutine) mutated bytes
			}
		}
		if !okINM || !okIMS {
			j.fail("C02", "validation-request-wrong", e, "validators", "validators If-None-Match=%q If-Modified-Since=%q were never sent by the origin for this resource", inm, ims)
		}
	}
	if !c.stored || c.method != "GET" {
		return
	}
	// a 304 counts as validation of the stored response only if the origin was asked about *its* entity tag -
	// not about one the client supplied for a representation it got elsewhere
	if c.fg304 != nil && c.B != nil && r.chainExact2(c.B, e) {
		sh, lastLink := r.effectiveStored(c.B, e.SeqInv)
		if et := sh.Get("Etag"); et != "" && r.readAgrees(e, c.B, lastLink) {
			j.count("C02", "validation-request-wrong")
			if got := c.fg304.Req.Header.Get("If-None-Match"); got != et {
				j.fail("C02", "validation-request-wrong", e, "not-the-stored-validator", "stored response sid=%d (ETag %s) was returned as validated by a 304, but the origin was asked If-None-Match=%q (client sent %q)", c.B.SID, et, got, e.Req.Header.Get("If-None-Match"))
			}
		}
	}
	// ... and a stored response that has no validator cannot be validated at all: a 304 in such an exchange
	// answers a validator the client supplied, for a representation it got elsewhere
	if c.fg304 != nil && c.B != nil && r.chainExact2(c.B, e) {
		sh, lastLink := r.effectiveStored(c.B, e.SeqInv)
		if sh.Get("Etag") == "" && sh.Get("Last-Modified") == "" && r.readAgrees(e, c.B, lastLink) && !r.tainted(e) {
			j.count("C02", "validation-request-wrong")
			j.fail("C02", "validation-request-wrong", e, "no-stored-validator", "stored response sid=%d has neither ETag nor Last-Modified, yet it was returned as validated by a 304: the origin was asked If-None-Match=%q If-Modified-Since=%q, which the client supplied", c.B.SID, c.fg304.Req.Header.Get("If-None-Match"), c.fg304.Req.Header.Get("If-Modified-Since"))
		}
	}
	scc := parseCC(c.hdr)
	var why []string
	strict := false
	if v, ok := scc["no-cache"]; ok && v == "" {
		why, strict = append(why, "stored no-cache"), true
	}
	if scc.has("must-revalidate") && c.staleForSure(r) {
		why, strict = append(why, "stale+must-revalidate"), true
	}
	// the directive as the chain of 304s that validated B leaves it in the store: a 304 may have brought an
	// unqualified no-cache that the copy served here does not show (because the freshened response was never
	// written back); claimed only where the chain is unambiguous
	if _, shown := scc["no-cache"]; !shown && c.B != nil && r.chainExact(c.B, e) {
		eff, lastLink := r.effectiveStored(c.B, e.SeqInv)
		if v, ok := parseCC(eff)["no-cache"]; ok && v == "" && r.readAgrees(e, c.B, lastLink) {
			why, strict = append(why, "stored no-cache (from a 304)"), true
		}
	}
	if c.reqCC.has("no-cache") {
		why = append(why, "request no-cache")
	}
	if _, hi, p, valid := c.reqCC.delta("max-age"); p && valid && c.haveAge && c.ageLo > satAdd(satMulSec(hi), c.guard(r)) {
		why = append(why, "request max-age exceeded")
	}
	// Vary: * can never be selected without validation (C04)
	j.count("C02", "unvalidated-reuse")
	if len(why) > 0 && c.fg304 == nil {
		excused := false
		if !strict && c.fgFail != nil && !c.reqCC.has("no-cache") {
			// a request max-age the stored response exceeds + failed validation: stale-if-error territory (C13).
			// Not so request no-cache: "returned only after the origin ... answered 304; otherwise the origin's own
			// answer (or its failure) is returned", and no-cache is not overridden by stale-if-error.
			excused = true
		}
		if !excused {
			sig := strings.Join(why, "+")
			if _, _, p, _ := scc.delta("stale-while-revalidate"); p {
				sig += "|swr"
			}
			if c.reqCC.has("only-if-cached") {
				sig += "|oic"
			}
			if c.reqCC.has("max-stale") {
				sig += "|max-stale"
			}
			if scc.has("immutable") {
				sig += "|immutable"
			}
			if c.fgFail != nil {
				sig += "|after-failure"
			}
			j.fail("C02", "unvalidated-reuse", e, sig, "stored response sid=%d returned without a 304 from the origin in this exchange although validation was required (%s); stored Cache-Control=%q request Cache-Control=%q age>=%s lifetime<=%s fg-calls=%d",
				sidOf(c.B), strings.Join(why, ", "), c.hdr.Get("Cache-Control"), e.Req.Header.Get("Cache-Control"), ns(c.ageLo), ns(c.lifeHi), len(c.fg))
		}
	}
	// fields named by a qualified no-cache are not replayed without validation
	if c.B != nil && c.fg304 == nil {
		// (the directive as it stands in the stored header fields now: a later 304 may have replaced it)
		eff := c.B.Header
		if c.H != nil && c.H != c.B && len(c.H.Header.Values("Cache-Control")) > 0 {
			eff = c.H.Header
		}
		// ... and as the chain of 304s that validated B leaves it (an intermediate 304 may have replaced the
		// directive, a later one without Cache-Control keeps that): a field counts only if both readings name it
		chainHdr, _ := r.effectiveStored(c.B, e.SeqInv)
		chainNamed := map[string]bool{}
		if cv, ok := parseCC(chainHdr)["no-cache"]; ok {
			for _, f := range strings.Split(cv, ",") {
				chainNamed[http.CanonicalHeaderKey(strings.TrimSpace(f))] = true
			}
		}
		if v, ok := parseCC(eff)["no-cache"]; ok && v != "" {
			j.count("C02", "qualified-nocache-field-replayed")
			for _, f := range strings.Split(v, ",") {
				f = http.CanonicalHeaderKey(strings.TrimSpace(f))
				if f == "" || !chainNamed[f] {
					continue
				}
				if got, stored := e.Header.Values(f), c.B.Header.Values(f); len(got) > 0 && reflect.DeepEqual(got, stored) {
					j.fail("C02", "qualified-nocache-field-replayed", e, "", "field %s=%v named by no-cache=%q replayed from the store without validation", f, got, v)
				}
			}
		}
	}
}

// ---------------- C04 ----------------

// variantSig: the two values of the selecting-value table whose variant keys collide under the library's 64-bit
// hash get a signature of their own (a known, unrepaired finding: known_findings.json), every other mix-up the
// plain one.
func variantSig(a, b string) string {
	const v1, v2 = "9d863088ea8a569f", "9170dae036e4c82e"
	if (a == v1 && b == v2) || (a == v2 && b == v1) {
		return "hash-collision"
	}
	// a value whose members all carry q=0 is normalised to the empty value and then equals "absent" (second
	// known finding: a test of the suite pins the dropping of q=0 members)
	if (a == "" && b == "br;q=0") || (a == "br;q=0" && b == "") {
		return "qzero-matches-absent"
	}
	return ""
}

// meaningOf maps a selecting header value to its meaning; spellings of one
// meaning are generated from tables, so this is a lookup, not an analysis.
func meaningOf(field string, vals []string) string {
	if len(vals) == 0 {
		return ""
	}
	// several field lines are one list (RFC 9110 §5.3)
	parts := make([]string, 0, len(vals))
	for _, v := range vals {
		parts = append(parts, strings.TrimSpace(v))
	}
	v := strings.Join(parts, ", ")
	if m, ok := spellingMeaning[field+"\x00"+v]; ok {
		return m
	}
	if m, ok := spellingMeaning[field+"\x00"+strings.ReplaceAll(v, ", ", ",")]; ok {
		return m
	}
	return v
}

func varyFields(hs ...http.Header) (fields []string, star bool) {
	seen := map[string]bool{}
	for _, h := range hs {
		for _, line := range h.Values("Vary") {
			for _, f := range strings.Split(line, ",") {
				f = strings.TrimSpace(f)
				if f == "*" {
					star = true
					continue
				}
				f = http.CanonicalHeaderKey(f)
				if f != "" && !seen[f] {
					seen[f] = true
					fields = append(fields, f)
				}
			}
		}
	}
	sort.Strings(fields)
	return
}

func judgeVary(r *Run, j *Judged, c *cls) {
	e := c.e
	if !c.stored || c.B == nil || c.method != "GET" {
		return
	}
	// the Vary field in effect is the one of the stored header fields as served (a 304 may have replaced it)
	vh := c.B.Header
	if c.H != nil && c.H != c.B {
		if len(c.H.Header.Values("Vary")) > 0 {
			vh = c.H.Header
		} else if eff, lastLink := r.effectiveStored(c.B, e.SeqInv); len(eff.Values("Vary")) > 0 && r.chainExact(c.B, e) && r.readAgrees(e, c.B, lastLink) {
			// the last 304 brought no Vary: the one in effect is what an earlier 304 of the chain left (claimed
			// only where the chain is unambiguous and the entry this exchange read shows it)
			vh = eff
		} else {
			// ... and where it is not, but some 304 for the resource since B carried another Vary than B's own,
			// which Vary the served copy is under cannot be told from the history: not judged
			for _, o := range r.OResps {
				if o.Is304 && o.Res == c.B.Res && o.SeqResp > c.B.SeqResp && o.SeqResp < e.SeqRet && len(o.Header.Values("Vary")) > 0 &&
					strings.Join(o.Header.Values("Vary"), ", ") != strings.Join(c.B.Header.Values("Vary"), ", ") {
					return
				}
			}
		}
	}
	fields, star := varyFields(vh)
	if star {
		j.count("C04", "vary-star-unvalidated")
		if c.fg304 == nil {
			j.fail("C04", "vary-star-unvalidated", e, "", "stored response sid=%d with Vary: * returned without validation", c.B.SID)
		}
	}
	if len(fields) == 0 {
		return
	}
	j.count("C04", "wrong-variant")
	// the selecting values must equal those of the request that obtained the header provenance (the stored
	// response itself, or the 304 that last validated it) and, for the fields B itself nominated, B's request
	ref := c.B
	if c.H != nil {
		ref = c.H
	}
	for _, f := range fields {
		a, b := meaningOf(f, e.Req.Header.Values(f)), meaningOf(f, ref.Req.Header.Values(f))
		if a != b {
			j.fail("C04", "wrong-variant", e, variantSig(ref.Req.Header.Get(f), e.Req.Header.Get(f)), "stored response sid=%d (header provenance sid=%d) was obtained with %s=%q but is returned for a request with %s=%q (Vary: %s)", c.B.SID, ref.SID, f, ref.Req.Header.Values(f), f, e.Req.Header.Values(f), vh.Get("Vary"))
			return
		}
	}
	own, _ := varyFields(c.B.Header)
	if c.H != nil && c.H != c.B {
		own = nil // a 304 may have replaced the Vary field (RFC 9111 §4.3.4): the field in effect was checked above
	}
	for _, f := range own {
		a, b := meaningOf(f, e.Req.Header.Values(f)), meaningOf(f, c.B.Req.Header.Values(f))
		if a != b {
			j.fail("C04", "wrong-variant", e, variantSig(c.B.Req.Header.Get(f), e.Req.Header.Get(f)), "stored response sid=%d was obtained with %s=%q but is returned for a request with %s=%q (its own Vary: %s)", c.B.SID, f, c.B.Req.Header.Values(f), f, e.Req.Header.Values(f), c.B.Header.Get("Vary"))
			return
		}
	}
}

// ---------------- C05 ----------------

func judgeFidelity(r *Run, j *Judged, c *cls) {
	e := c.e
	if !c.stored || c.B == nil {
		return
	}
	j.count("C05", "stored-copy-differs")
	if c.bodyOf != nil && c.bodyOf != c.B {
		j.fail("C05", "stored-copy-differs", e, "body-of-other-response", "header fields of stored response sid=%d served with the body of response sid=%d", c.B.SID, c.bodyOf.SID)
	}
	if e.Status != c.B.Status {
		j.fail("C05", "stored-copy-differs", e, "status", "stored response sid=%d has status %d, origin sent %d", c.B.SID, e.Status, c.B.Status)
	}
	hop := canonHopByHop(c.B.Header)
	// header provenance chain: the 304s that may have freshened B up to (and including) H
	var chain []*OResp
	if c.H != nil && c.H != c.B {
		// every 304 that may have contributed header fields: concurrent (background) validations work on
		// copies of the entry and overwrite each other, so the history need not be a linear chain - any 304
		// of this resource whose request carried validators that B or a later 304 of it ever had qualifies
		// (a 304 that answered a client's own conditional may have been merged too: then any 304 qualifies)
		clientCond := r.clientConditionalSince(c.B, c.H.SeqResp+1)
		ets, lms := map[string]bool{"": true}, map[string]bool{"": true}
		// (entity tags are compared by their opaque part: a request built from an earlier copy of the entry may
		// carry W/"x" where B has "x" - the origin's weak comparison answers 304 all the same. A 304 for
		// validators B never had - those of a representation B replaced - does not belong to B.)
		opaque := func(et string) string { return strings.TrimPrefix(et, "W/") }
		note := func(h http.Header) { ets[opaque(h.Get("Etag"))], lms[h.Get("Last-Modified")] = true, true }
		note(c.B.Header)
		for pass := 0; pass < 2; pass++ {
			chain = chain[:0]
			for _, o := range r.OResps {
				if !o.Is304 || o.Res != c.B.Res || o.SeqResp <= c.B.SeqResp || o.SeqResp > c.H.SeqResp {
					continue
				}
				inm, ims := o.Req.Header.Get("If-None-Match"), o.Req.Header.Get("If-Modified-Since")
				if !clientCond && !((inm != "" && ets[opaque(inm)]) || (inm == "" && ims != "" && lms[ims])) {
					continue // (If-Modified-Since may also be the client's own)
				}
				chain = append(chain, o)
				note(o.Header)
			}
		}
		if len(chain) == 0 || chain[len(chain)-1] != c.H {
			chain = append(chain, c.H)
		}
	}
	ignore := map[string]bool{"Age": true, "X-Httpcache-Status": true, "X-From-Cache": true, "Content-Length": true}
	qualified := map[string]bool{}
	for _, src := range append([]*OResp{c.B}, chain...) {
		if v, ok := parseCC(src.Header)["no-cache"]; ok && v != "" {
			for _, f := range strings.Split(v, ",") {
				qualified[http.CanonicalHeaderKey(strings.TrimSpace(f))] = true
			}
		}
	}
	// candidates(k): the values field k may legitimately have; if the last 304 carried it, only that one
	candidates := func(k string) [][]string {
		if c.H != nil && c.H != c.B {
			if hv, ok := c.H.Header[k]; ok && !canonHopByHop(c.H.Header)[k] {
				return [][]string{hv}
			}
		}
		var out [][]string
		if v, ok := c.B.Header[k]; ok && !hop[k] {
			out = append(out, v)
		}
		for _, o := range chain {
			if v, ok := o.Header[k]; ok && !canonHopByHop(o.Header)[k] {
				out = append(out, v)
			}
		}
		return out
	}
	dateSupplied := false
	for _, src := range append([]*OResp{c.B}, chain...) {
		if _, ok := parseDate(src.Header.Get("Date")); !ok {
			dateSupplied = true // some link of the chain came without a usable Date: the cache had to supply one
		}
	}
	names := map[string]bool{}
	for k := range c.B.Header {
		names[k] = true
	}
	for _, o := range chain {
		for k := range o.Header {
			names[k] = true
		}
	}
	sortedNames := make([]string, 0, len(names))
	for k := range names {
		sortedNames = append(sortedNames, k)
	}
	sort.Strings(sortedNames)
	for _, k := range sortedNames {
		if ignore[k] || (k == "Date" && dateSupplied) {
			continue
		}
		cands := candidates(k)
		if len(cands) == 0 {
			continue // hop-by-hop everywhere it occurred
		}
		got := e.Header[k]
		if qualified[k] && len(got) == 0 {
			continue // stripped because of no-cache="field"
		}
		if len(got) == 0 {
			// (carried as an end-to-end field, that is: a field the message itself nominated in Connection was
			// never stored)
			_, inB := c.B.Header[k]
			inB = inB && !canonHopByHop(c.B.Header)[k]
			inH := false
			if c.H != nil {
				_, inH = c.H.Header[k]
				inH = inH && !canonHopByHop(c.H.Header)[k]
			}
			if !inB && !inH {
				continue // only an intermediate 304 (possibly of a concurrent validation) carried it
			}
		}
		okv := false
		for _, w := range cands {
			if reflect.DeepEqual(got, w) {
				okv = true
			}
		}
		if !okv {
			j.fail("C05", "stored-copy-differs", e, "header", "stored response sid=%d: field %s is %q, origin sent %q", c.B.SID, k, got, cands)
			break
		}
	}
	// fields the origin never sent must not appear (beyond the cache's own)
	for k, got := range e.Header {
		if ignore[k] || k == "Date" || names[k] {
			continue
		}
		j.fail("C05", "stored-copy-differs", e, "extra-header", "stored response sid=%d carries field %s=%q that the origin never sent", c.B.SID, k, got)
		break
	}
	if e.BodyRead {
		if e.BodyErr != "" || !bytes.Equal(e.Body, c.B.Body) {
			j.fail("C05", "stored-copy-differs", e, "body", "stored response sid=%d: body len=%d err=%q differs from the origin's (len=%d)", c.B.SID, len(e.Body), e.BodyErr, len(c.B.Body))
		}
	}
	j.count("C05", "hop-by-hop-leak")
	for k, vs := range e.Header {
		for _, v := range vs {
			if hopMark.MatchString(v) {
				j.fail("C05", "hop-by-hop-leak", e, "", "hop-by-hop field %s=%q replayed from the store", k, v)
			}
		}
	}
}

// ---------------- C11 ----------------

func judgeStatusAge(r *Run, j *Judged, c *cls) {
	e := c.e
	j.count("C11", "status-mismatch")
	if len(c.status) != 1 {
		j.fail("C11", "status-mismatch", e, "count", "response carries %d X-Httpcache-Status values: %v", len(c.status), c.status)
		return
	}
	st := c.status[0]
	fromCache := e.Header.Values("X-From-Cache")
	wantFC := st == "HIT" || st == "STALE" || st == "REVALIDATED"
	if wantFC != (len(fromCache) == 1 && fromCache[0] == "1") || (!wantFC && len(fromCache) > 0) {
		j.fail("C11", "status-mismatch", e, "x-from-cache", "X-Httpcache-Status=%s but X-From-Cache=%v", st, fromCache)
	}
	bad := func(what string) {
		j.fail("C11", "status-mismatch", e, what, "X-Httpcache-Status=%s but the history shows: %s (fg origin calls=%d, stored=%v, sid=%d)", st, what, len(c.fg), c.stored, sidOf(c.B))
	}
	switch {
	case c.stored && c.fg304 != nil && c.H != nil && c.H.Call == c.fg304:
		if st != "REVALIDATED" {
			bad("stored response returned after a 304 in this exchange")
		}
	case c.stored && len(c.fg) == 0:
		switch st {
		case "HIT":
		case "STALE":
			if c.freshForSure(r) && !c.reqCC.has("max-age") && !c.reqCC.has("min-fresh") {
				bad("fresh stored response served without origin contact")
			}
		default:
			bad("stored response served without origin contact")
		}
	case c.stored && c.fgFail != nil:
		if st != "STALE" {
			bad("stored response served after the origin failed")
		}
	case c.stored:
		if st == "MISS" || st == "BYPASS" {
			bad("stored response returned")
		}
	case c.reply != nil || c.synth:
		if st != "MISS" && st != "BYPASS" {
			bad("the origin's reply of this exchange (or a synthesised response) returned")
		}
	}
	// Age on responses served from the store without successful validation
	if c.stored && c.fg304 == nil && c.haveAge {
		j.count("C11", "age-wrong")
		av := e.Header.Values("Age")
		if len(av) != 1 {
			j.fail("C11", "age-wrong", e, "count", "stored response sid=%d served with %d Age fields %v; current age is in [%s,%s]", sidOf(c.B), len(av), av, ns(c.ageLo), ns(c.ageHi))
			return
		}
		n, err := strconv.ParseInt(av[0], 10, 64)
		// (the age at the instant the response is handed to the caller: a response served after a slow, failed
		// validation has aged by the time that took)
		lo := c.ageAtRetLo/sec - 1
		hi := c.ageHi
		if hi != inf {
			hi = (c.ageHi+sec-1)/sec + 1
		}
		// ages beyond 2^31 s may be reported as 2^31 or anything larger
		if c.ageLo >= satMulSec(two31) {
			lo = two31 - 1
			hi = inf
		}
		if err != nil || n < lo || (hi != inf && n > hi) {
			j.fail("C11", "age-wrong", e, "", "stored response sid=%d served with Age: %s; current age per RFC 9111 §4.2.3 is in [%s,%s] (origin Age %v)", sidOf(c.B), av[0], ns(c.ageLo), ns(c.ageHi), c.H.Header.Values("Age"))
		}
	}
}

// ---------------- C13 ----------------

func (r *Run) storedReadIn(e *Exch, by map[int]*OResp) *OResp {
	for _, s := range e.Store {
		if s.Fg && s.Kind == "get" && s.Err == "" && !s.IsIndex && s.Fault == "" {
			if sid := firstBodyOrSeq(s.Val); sid != 0 {
				return by[sid]
			}
		}
	}
	return nil
}

var entryStatusRe = regexp.MustCompile(`\nHTTP/\d\.\d (\d{3})`)

func firstBodyOrSeq(v []byte) int {
	if m := bodyHdrRe.FindSubmatch(v); m != nil {
		n, _ := strconv.Atoi(string(m[1]))
		return n
	}
	if m := tokRe.FindSubmatch(v); m != nil {
		n, _ := strconv.Atoi(string(m[1]))
		return n
	}
	if m := seqRe.FindSubmatch(v); m != nil {
		n, _ := strconv.Atoi(string(m[1]))
		return n
	}
	return 0
}

func judgeSIE(r *Run, j *Judged, c *cls, by map[int]*OResp) {
	e := c.e
	if c.method != "GET" || c.fgFail == nil || len(c.fg) != 1 {
		return
	}
	B := r.storedReadIn(e, by)
	if B == nil || B.Is304 {
		return
	}
	u := c.fgFail
	if r.hasStoreFault(e) {
		return
	}
	if r.clientConditionalSince(B, e.SeqInv) {
		return
	}
	// the stored header fields in effect: B's, freshened by the 304s that validated it before this exchange
	sh, last := r.effectiveStored(B, e.SeqInv)
	if !r.readAgrees(e, B, last) {
		return
	}
	if (sh.Get("Etag") != "" && u.Req.Header.Get("If-None-Match") != sh.Get("Etag")) ||
		(sh.Get("Etag") == "" && sh.Get("Last-Modified") != "" && u.Req.Header.Get("If-Modified-Since") != sh.Get("Last-Modified")) {
		return
	}
	scc := parseCC(sh)
	if _, ok := parseDate(sh.Get("Date")); !ok {
		sh.Set("Date", r.httpTime(last.TResp))
	}
	// staleness is judged at the instant the failure is known (the end of the failed origin call)
	tFail := u.TEnd
	if tFail < e.TInv {
		tFail = e.TInv
	}
	aLo, aHi := currentAge(sh.Values("Age"), sh.Get("Date"), r.Sim.Epoch0, last.TStart, last.TResp, tFail, tFail)
	if last != B && len(last.Header.Values("Age")) == 0 {
		lo2, hi2 := currentAge(nil, sh.Get("Date"), r.Sim.Epoch0, last.TStart, last.TResp, tFail, tFail)
		aLo, aHi = min(aLo, lo2), max(aHi, hi2)
	}
	lLo, lHi, _ := lifetime(sh, B.Status)
	failKind := u.ErrKind
	if u.Resp != nil {
		failKind = strconv.Itoa(u.Resp.Status)
	}
	eligible := u.Resp == nil || u.Resp.Status == 500 || u.Resp.Status == 502 || u.Resp.Status == 503 || u.Resp.Status == 504
	if u.ErrKind == "ctx" || u.ErrKind == "hang-cancel" || u.ErrKind == "abort" {
		return // the caller gave up; not an origin failure
	}
	var nLo, nHi int64 = -1, -1
	for _, m := range []ccMap{scc, c.reqCC} {
		if lo, hi, p, valid := m.delta("stale-if-error"); p && valid {
			if nLo < 0 || satMulSec(lo) > nLo {
				nLo = satMulSec(lo)
			}
			if satMulSec(hi) > nHi {
				nHi = satMulSec(hi)
			}
		}
	}
	_, ncQualified := scc["no-cache"]
	forbidden := scc.has("must-revalidate") || (ncQualified && scc["no-cache"] == "")
	if c.reqCC.has("max-age") || c.reqCC.has("min-fresh") {
		return // request max-age / min-fresh + stale-if-error: the statement does not settle what "staleness" is then
	}
	// request no-cache applies like the stored one: "when must-revalidate or no-cache applies, the origin's error
	// response or the error is returned and the stored response is not" (and C02: such a request is answered from the
	// store only after a 304 in the same exchange, "otherwise the origin's own answer (or its failure) is returned")
	if c.reqCC.has("no-cache") {
		forbidden = true
	}
	reqNoCache := false
	g := c.guard(r)
	servedB := c.stored && c.B == B && e.Err == "" // (a response handed back together with an error is a failure to every caller)
	staleHi, staleLo := satAdd(aHi, -lLo), satAdd(aLo, -lHi)
	// the cache takes its decision somewhere between learning of the failure and returning (it may read the
	// store in between, and a store can be slow): "must be served" is claimed only if the window had not
	// elapsed by the time the exchange returned either
	tRet := max(e.TRetRaw, tFail)
	_, aHiRet := currentAge(sh.Values("Age"), sh.Get("Date"), r.Sim.Epoch0, last.TStart, last.TResp, tRet, tRet)
	if last != B && len(last.Header.Values("Age")) == 0 {
		_, hi2 := currentAge(nil, sh.Get("Date"), r.Sim.Epoch0, last.TStart, last.TResp, tRet, tRet)
		aHiRet = max(aHiRet, hi2)
	}
	staleHiRet := satAdd(aHiRet, -lLo)
	switch {
	case reqNoCache && eligible && nLo >= 0 && !forbidden && !(lHi != inf && staleLo > satAdd(nHi, g)):
		// inside (or possibly inside) the window with request no-cache: not judged
	case eligible && nLo >= 0 && !forbidden && lLo != inf && aHi != inf && aHiRet != inf && satAdd(staleHi, g) < nLo && satAdd(staleHiRet, g) < nLo:
		j.count("C13", "sie-not-served")
		r.probe("sie-window-inside")
		if !servedB {
			j.fail("C13", "sie-not-served", e, "", "validation of stored sid=%d failed (%s) with stale-if-error in effect (stored cc=%q, request cc=%q, staleness<=%s < window %s) but the stored response was not returned (status=%d err=%q)", B.SID, failKind, sh.Get("Cache-Control"), e.Req.Header.Get("Cache-Control"), ns(staleHi), ns(nLo), e.Status, e.Err)
		} else if st := strings.Join(c.status, ","); st != "STALE" {
			j.fail("C13", "sie-not-served", e, "status", "stale-if-error response marked %q instead of STALE", st)
		}
	case !eligible || forbidden || nHi < 0 || (lHi != inf && staleLo > satAdd(nHi, g)):
		j.count("C13", "sie-wrongly-served")
		r.probe("sie-window-outside")
		if servedB {
			why := "outside the stale-if-error window"
			switch {
			case !eligible:
				why = "status " + failKind + " is not 500/502/503/504"
			case forbidden:
				why = "must-revalidate / no-cache applies"
			case nHi < 0:
				why = "no stale-if-error directive on the stored response or the request"
			}
			sig := "window"
			if !eligible {
				sig = "status"
			} else if forbidden {
				sig = "forbidden"
			} else if nHi < 0 {
				sig = "nodirective"
			}
			j.fail("C13", "sie-wrongly-served", e, sig, "validation of stored sid=%d failed (%s) and the stored response was returned although %s (stored cc=%q request cc=%q staleness>=%s)", B.SID, failKind, why, sh.Get("Cache-Control"), e.Req.Header.Get("Cache-Control"), ns(staleLo))
		}
	}
}

// effectiveStored: the header fields RFC 9111 §4.3.4 prescribes for stored response B at sequence
// point `before`: B's own, replaced field by field by every 304 that validated B before then
// (except Content-Length and hop-by-hop fields); `last` is the response whose exchange defines the
// request/response times (the last such 304, or B).
func (r *Run) effectiveStored(B *OResp, before uint64) (hdr http.Header, last *OResp) {
	hdr, last, _ = r.validationChain(B, before)
	return
}

// chainExact2 is chainExact without the clause about the client's own conditional requests of *this* exchange
// (earlier ones still make the stored state ambiguous).
func (r *Run) chainExact2(B *OResp, e *Exch) bool {
	return r.chainExact(B, e)
}

// chainExact: can the stored state of B at the time of exchange e be derived from the history without
// ambiguity? Not after a client's own conditional request was answered 304, and not if validations of the
// resource overlapped each other, B's own storing, or e (each works on its own copy of the entry; whose
// write lands last is then a race).
func (r *Run) chainExact(B *OResp, e *Exch) bool {
	if r.clientConditionalSince(B, e.SeqInv) {
		return false
	}
	if r.Crashes > 0 || firedPrefix(r.Faults, "disk.") {
		return false
	}
	for _, s := range r.Store {
		if s.Fault != "" && s.Kind != "get" && s.Seq > B.SeqResp && s.Seq < e.SeqInv {
			return false // a write the store refused: what is stored is not what the history says was written
		}
		if s.Fault == "notexist" && s.Kind == "get" && s.Seq > B.SeqResp && s.Seq < e.SeqInv {
			// the store claimed that a key does not exist: if that was the index re-read after a 304, the cache
			// takes the URI for invalidated meanwhile and does not write the freshened response back
			return false
		}
	}
	began := func(c *UpCall) uint64 {
		if x := r.exchFor(c.Owner, c.OwnerOp); x != nil && x.SeqInv != 0 && x.SeqInv < c.SeqStart {
			return x.SeqInv
		}
		return c.SeqStart
	}
	var since []*UpCall
	for _, o := range r.Calls {
		// (a background validation belongs here from the moment its exchange was invoked, not only once its own
		// origin call starts: the exchange e may be invoked in between and read the entry after its write)
		if o.Res == B.Res && o.SeqStart > B.SeqResp && began(o) < e.SeqInv && safeMethods[o.Req.Method] {
			since = append(since, o)
		}
		if o != B.Call && o.Res == B.Res && o.SeqStart <= B.SeqResp && r.lastSeqOfLineage(o) > B.SeqResp && safeMethods[o.Req.Method] {
			return false // a validation that began before B arrived was still at work afterwards
		}
	}
	for i, a := range since {
		if !a.Ended || r.lastSeqOfLineage(a) > e.SeqInv {
			return false
		}
		if B.Call != nil && began(a) < r.lastSeqOfLineage(B.Call) {
			return false
		}
		for _, b := range since[i+1:] {
			if began(b) < r.lastSeqOfLineage(a) {
				return false
			}
		}
	}
	return true
}

// readAgrees: the entry this exchange read from the store (the value carrying B's body marker) also carries the
// marker of the last link of the inferred validation chain - or the chain is just B. If the read value tells
// another story (the 304 was written to another entry, or never written), expectations derived from the chain
// do not describe what this exchange had in front of it.
func (r *Run) readAgrees(e *Exch, B, last *OResp) bool {
	if last == nil || last == B || last.Bare {
		return true
	}
	seen := false
	for _, s := range e.Store {
		if s.Kind != "get" || s.IsIndex || s.Err != "" {
			continue
		}
		hasB, hasL := false, false
		for _, x := range s.SIDs {
			if x == B.SID {
				hasB = true
			}
			if x == last.SID {
				hasL = true
			}
		}
		if hasB {
			seen = true
			if hasL {
				return true
			}
		}
	}
	if !seen {
		return true
	}
	// the value read lacks the last link's marker. If that marker was never written to the store at all, the
	// freshened response was not written back - which is what the rules relying on the chain exist to notice;
	// if it was written (to another entry), the chain does not describe the entry this exchange read.
	for _, s := range r.Store {
		if s.Kind == "set" && !s.IsIndex {
			for _, x := range s.SIDs {
				if x == last.SID {
					return false
				}
			}
		}
	}
	return true
}

// mergedElsewhere: some store write carries the 304's marker next to another body's, and none next to B's.
func (r *Run) mergedElsewhere(o, B *OResp) bool {
	with, without := false, false
	for _, s := range r.Store {
		if s.Kind != "set" || s.IsIndex {
			continue
		}
		hasO, hasB := false, false
		for _, x := range s.SIDs {
			if x == o.SID {
				hasO = true
			}
			if x == B.SID {
				hasB = true
			}
		}
		if hasO && hasB {
			with = true
		}
		if hasO && !hasB {
			without = true
		}
	}
	return without && !with
}

// clientConditionalSince: did a client send its own conditional request for B's resource (and get a
// 304) after B was obtained? What such a 304 means for the stored response is not settled by the
// statements, so history-derived expectations about the stored state are not made then.
func (r *Run) clientConditionalSince(B *OResp, before uint64) bool {
	for _, o := range r.OResps {
		if !o.Is304 || o.Res != B.Res || o.SeqResp <= B.SeqResp || o.SeqResp >= before {
			continue
		}
		if e := r.exchFor(o.Call.Owner, o.Call.OwnerOp); e != nil && (e.Req.Header.Get("If-None-Match") != "" || e.Req.Header.Get("If-Modified-Since") != "") {
			return true
		}
	}
	return false
}

// validationChain: the 304s (in order) whose requests carried B's validators as they stood then.
func (r *Run) validationChain(B *OResp, before uint64) (hdr http.Header, last *OResp, chain []*OResp) {
	hdr, last = B.Header.Clone(), B
	if _, ok := parseDate(hdr.Get("Date")); !ok {
		hdr.Set("Date", r.httpTime(B.TResp)) // RFC 9110 §6.6.1: a recipient with a clock records the time of receipt
	}
	et, lm := B.Header.Get("Etag"), B.Header.Get("Last-Modified")
	// variants of one URI may share their validators (no ETag, one Last-Modified): where the resource's Vary
	// never changes, a 304 belongs to B's chain only if its request selects B's variant
	vary, stable := r.varyStable(B.Res)
	for _, o := range r.OResps {
		if !o.Is304 || o.Res != B.Res || o.SeqResp <= B.SeqResp || o.SeqResp >= before {
			continue
		}
		if stable && classKey(vary, o.Req.Header) != classKey(vary, B.Req.Header) {
			continue
		}
		if !stable && r.mergedElsewhere(o, B) {
			continue // the store shows this 304 written into the entry of another response of the resource
		}
		inm, ims := o.Req.Header.Get("If-None-Match"), o.Req.Header.Get("If-Modified-Since")
		if (et == "" && lm == "") || inm != et || ims != lm {
			continue // a validation request carries exactly the stored validators
		}
		if noStoreExchange(o) {
			continue // nothing of such an exchange is written to the store (C06): it freshens nothing
		}
		chain = append(chain, o)
		hop := canonHopByHop(o.Header)
		for k, v := range o.Header {
			if hop[k] || k == "Content-Length" {
				continue
			}
			hdr[k] = v
		}
		if _, ok := parseDate(o.Header.Get("Date")); !ok {
			hdr.Set("Date", r.httpTime(o.TResp))
		}
		last = o
		et2, lm2 := hdr.Get("Etag"), hdr.Get("Last-Modified")
		if et2 != "" {
			et = et2
		}
		if lm2 != "" {
			lm = lm2
		}
	}
	return hdr, last, chain
}

// noStoreExchange: the request or the response says no-store.
func noStoreExchange(o *OResp) bool {
	return parseCC(o.Req.Header).has("no-store") || parseCC(o.Header).has("no-store")
}

func firstNonEmpty(a, b string) string {
	if a != "" {
		return a
	}
	return b
}

func (r *Run) hasStoreFault(e *Exch) bool {
	for _, s := range e.Store {
		if s.Fault != "" {
			return true
		}
	}
	return false
}

// ---------------- C18 ----------------

func judgeOIC(r *Run, j *Judged, c *cls) {
	e := c.e
	if !c.reqCC.has("only-if-cached") {
		return
	}
	// "under any circumstances": whatever the method, and also for a Range request
	j.count("C18", "network-touched")
	if len(e.Calls) > 0 {
		u := e.Calls[0]
		sig := "fg"
		if !u.Fg {
			sig = "bg"
		}
		if c.method != "GET" {
			sig += "+method=" + methodClass2(c.method)
		} else if e.Req.Header.Get("Range") != "" {
			sig += "+range"
		}
		j.fail("C18", "network-touched", e, sig, "request with only-if-cached caused %d origin call(s) (first: #%d %s on %s, conditional=%v)", len(e.Calls), u.ID, u.Req.Method, u.Gor, u.Req.Header.Get("If-None-Match")+u.Req.Header.Get("If-Modified-Since") != "")
	}
	j.count("C18", "oic-bad-response")
	if e.Err != "" || (!c.stored && !(c.synth && e.Status == 504)) {
		if len(e.Calls) == 0 {
			j.fail("C18", "oic-bad-response", e, "", "only-if-cached answered with status=%d err=%q (neither a stored response nor a synthesised 504)", e.Status, e.Err)
		}
	} else if c.synth && e.Status == 504 && len(e.Body) != 0 {
		j.fail("C18", "oic-bad-response", e, "body", "synthesised 504 carries a body of %d bytes", len(e.Body))
	}
}

func methodClass2(m string) string {
	if safeMethods[m] {
		return "safe"
	}
	return "unsafe"
}

// ---------------- C20 ----------------

func judgeSWR(r *Run, j *Judged, c *cls) {
	e := c.e
	if len(c.bg) > 0 {
		j.count("C20", "foreground-failed")
		if e.Err != "" || e.Panic != "" {
			j.fail("C20", "foreground-failed", e, "", "exchange with a background revalidation failed in the foreground: err=%q", e.Err)
		}
	}
	if !c.stored || len(c.fg) > 0 || c.method != "GET" || !c.haveAge || c.B == nil {
		return
	}
	scc := parseCC(c.hdr)
	_, swrHi, p, valid := scc.delta("stale-while-revalidate")
	if !p || !valid {
		return
	}
	if !c.staleForSure(r) {
		return
	}
	stale := c.ageHi - c.lifeLo
	if c.ageHi == inf || stale >= satMulSec(swrHi)-c.guard(r) {
		return // not inside the window for sure
	}
	if c.reqCC.has("max-stale") || c.reqCC.has("only-if-cached") || c.reqCC.has("no-cache") || c.reqCC.has("max-age") || c.reqCC.has("min-fresh") {
		return // another rule may have allowed / decided it
	}
	if v, nc := scc["no-cache"]; scc.has("must-revalidate") || (nc && v == "") {
		return // (a qualified no-cache only withholds fields)
	}
	r.probe("swr-served")
	// answered at once: the foreground spends no virtual time beyond its own store operations
	j.count("C20", "foreground-waited")
	var budget time.Duration
	for _, s := range e.Store {
		if s.Fg {
			budget += time.Duration(r.Scn.StoreLat)
		}
	}
	if r.Scn.Backend != "mem" {
		budget = -1 // disk schedules may stall; judged only on the memory backend
	}
	if budget >= 0 && r.Scn.Sched.StallPct == 0 && e.TRet-e.TInv > budget {
		j.fail("C20", "foreground-waited", e, "", "stale-while-revalidate response took %s of virtual time (store budget %s): the foreground waited", e.TRet-e.TInv, budget)
	}
	j.count("C20", "revalidation-count")
	if len(c.bg) == 0 {
		// the background goroutine loads its own copy of the entry first; if the entry has been invalidated (or
		// the read failed) in the meantime there is nothing left to revalidate
		for _, s := range e.Store {
			if !s.Fg && s.Kind == "get" && !s.IsIndex && (s.Err != "" || s.Fault != "") {
				return
			}
		}
	}
	if len(c.bg) != 1 {
		j.fail("C20", "revalidation-count", e, strconv.Itoa(len(c.bg)), "stale response sid=%d served under stale-while-revalidate with %d background revalidation requests (want exactly 1)", c.B.SID, len(c.bg))
		return
	}
	u := c.bg[0]
	// "... for it": the background request is this exchange's request plus validators, whatever the caller does
	// with its own request value after the response was returned
	if rest, want := reqWithout(u.Req.Header, "If-None-Match", "If-Modified-Since"), reqWithout(e.Req.Header, "If-None-Match", "If-Modified-Since"); !reflect.DeepEqual(rest, want) || u.Req.URL != e.Req.URL || u.Req.Method != e.Req.Method {
		j.fail("C20", "revalidation-count", e, "other-request", "the background revalidation is not for the request that was answered: sent %s %s %v, the caller's request was %s %s %v", u.Req.Method, u.Req.URL, rest, e.Req.Method, e.Req.URL, want)
	}
	// the validators as stored (a qualified no-cache may have stripped them from what the caller was given)
	sh, lastLink := r.effectiveStored(c.B, e.SeqInv)
	et, lm := sh.Get("Etag"), sh.Get("Last-Modified")
	if !r.readAgrees(e, c.B, lastLink) {
		et, lm = u.Req.Header.Get("If-None-Match"), u.Req.Header.Get("If-Modified-Since")
	}
	if r.clientConditionalSince(c.B, e.SeqInv) {
		et, lm = u.Req.Header.Get("If-None-Match"), u.Req.Header.Get("If-Modified-Since")
	}
	// (which exact values are in the store can depend on races between concurrent background validations;
	// that validators the origin really sent are used is C02's validation-request rule)
	// exact validators are demanded only if, since B was obtained, no two validations of this resource ever
	// overlapped (each works on its own copy of the entry: whose merge ends up stored is then a race)
	exact := !r.clientConditionalSince(c.B, e.SeqInv)
	var since []*UpCall
	for _, o := range r.Calls {
		if o != u && o.Res == u.Res && o.SeqStart > c.B.SeqResp && o.SeqStart < u.SeqStart {
			since = append(since, o)
		}
		if o != u && o != c.B.Call && o.Res == u.Res && o.SeqStart <= c.B.SeqResp && r.lastSeqOfLineage(o) > c.B.SeqResp && safeMethods[o.Req.Method] {
			exact = false // a validation that began before B arrived was still at work afterwards
		}
	}
	// (a validation works with the validators its exchange read from the store when it was invoked - for a
	// background one that is before the caller was answered, well before the origin call starts)
	began := func(c *UpCall) uint64 {
		if x := r.exchFor(c.Owner, c.OwnerOp); x != nil && x.SeqInv != 0 && x.SeqInv < c.SeqStart {
			return x.SeqInv
		}
		return c.SeqStart
	}
	for i, a := range since {
		if !a.Ended || r.lastSeqOfLineage(a) > e.SeqInv {
			exact = false
		}
		if c.B.Call != nil && began(a) < r.lastSeqOfLineage(c.B.Call) {
			exact = false // it began before B itself was stored: it carries validators of what B replaced
		}
		for _, b := range since[i+1:] {
			if began(b) < r.lastSeqOfLineage(a) {
				exact = false
			}
		}
	}
	// (the validators are those of the copy the background goroutine loads; when other validations of the
	// resource were at work in between, that copy may be another response, even one without validators)
	unconditional := exact && (et != "" || lm != "") && u.Req.Header.Get("If-None-Match") == "" && u.Req.Header.Get("If-Modified-Since") == ""
	if exact && ((et != "" && u.Req.Header.Get("If-None-Match") != et) || (lm != "" && u.Req.Header.Get("If-Modified-Since") != lm)) {
		unconditional = true
	}
	if unconditional {
		j.fail("C20", "revalidation-count", e, "unconditional", "background revalidation is not conditional on the stored validators: stored ETag=%q Last-Modified=%q, sent If-None-Match=%q If-Modified-Since=%q", et, lm, u.Req.Header.Get("If-None-Match"), u.Req.Header.Get("If-Modified-Since"))
	}
	// timeout: when the origin does not answer, the call is cancelled at spawn+T
	// (the caller's context ends with the caller's exchange: cancelling it - before the call, or after the
	// response was returned, as http.Client does when the body is closed - is not the configured timeout)
	if u.Ended && (u.ErrKind == "hang-cancel" || u.ErrKind == "ctx") {
		j.count("C20", "timeout-wrong")
		T := 5 * time.Second
		if r.Scn.SWRSet && r.Scn.SWRNs > 0 {
			T = time.Duration(r.Scn.SWRNs)
		}
		sub := ""
		if e.Op.CancelNs != 0 {
			sub = "caller-cancel"
		}
		if u.CancelAt < e.TInv+T || u.CancelAt > max(e.TRet+T, u.TStart) {
			j.fail("C20", "timeout-wrong", e, sub, "background revalidation was cancelled at %s; expected between %s and %s (timeout %s, configured set=%v value=%s)", u.CancelAt, e.TInv+T, e.TRet+T, T, r.Scn.SWRSet, time.Duration(r.Scn.SWRNs))
		}
		r.probe("swr-timeout-fired")
	}
	// the background request lives until its response has been taken in or the timeout elapses: a context that
	// ends while the body of the reply is still arriving loses the reply
	if u.BodyCancelAt > 0 {
		j.count("C20", "timeout-wrong")
		T := 5 * time.Second
		if r.Scn.SWRSet && r.Scn.SWRNs > 0 {
			T = time.Duration(r.Scn.SWRNs)
		}
		if at := u.BodyCancelAt - 1; at < e.TInv+T {
			j.fail("C20", "timeout-wrong", e, "reply-unread", "the context of background revalidation #%d ended at %s while the body of its reply was still being read; the timeout (%s) elapses at %s at the earliest", u.ID, at, T, e.TInv+T)
		}
	}
	if !u.Ended {
		j.count("C20", "timeout-wrong")
		j.fail("C20", "timeout-wrong", e, "never", "background revalidation #%d was never cancelled although the origin never answered", u.ID)
	}
}

// ---------------- C06 ----------------

func storeForbidden(o *OResp) string {
	rcc, scc := parseCC(o.Req.Header), parseCC(o.Header)
	switch {
	case rcc.has("no-store"):
		return "request no-store"
	case scc.has("no-store"):
		return "response no-store"
	case o.Req.Method != "GET":
		return "method " + o.Req.Method
	case o.Req.Header.Get("Range") != "":
		return "Range request"
	case o.Status < 200:
		return "1xx status"
	case o.Status == 206 || o.Status == 304:
		return "status " + strconv.Itoa(o.Status)
	case scc.has("must-understand") && !assignedStatus[o.Status]:
		return "must-understand with unassigned status " + strconv.Itoa(o.Status)
	case !o.Complete:
		return "body not delivered completely"
	}
	explicit := len(o.Header.Values("Expires")) > 0
	for k := range scc {
		if k == "max-age" || k == "s-maxage" || k == "public" || k == "private" || !knownRespDirectives[k] {
			explicit = true
		}
	}
	if !explicit && !heuristicStatus[o.Status] {
		return "no explicit freshness and status " + strconv.Itoa(o.Status) + " not heuristically cacheable"
	}
	return ""
}

func judgeStoreWrites(r *Run, j *Judged, by map[int]*OResp) {
	for _, s := range r.Store {
		if s.Kind != "set" || s.IsIndex {
			continue
		}
		j.count("C06", "forbidden-store")
		bsid := 0
		if m := bodyHdrRe.FindSubmatch(s.Val); m != nil {
			bsid, _ = strconv.Atoi(string(m[1]))
		} else if m := tokRe.FindSubmatch(s.Val); m != nil {
			bsid, _ = strconv.Atoi(string(m[1]))
		}
		hsid := 0
		if m := seqRe.FindSubmatch(s.Val); m != nil {
			hsid, _ = strconv.Atoi(string(m[1]))
		}
		stStored := 0
		if m := entryStatusRe.FindSubmatch(append([]byte("\n"), s.Val...)); m != nil {
			stStored, _ = strconv.Atoi(string(m[1]))
		}
		var o *OResp
		switch {
		case bsid != 0:
			o = by[bsid]
		case hsid != 0 && by[hsid] != nil && (!by[hsid].Is304 || stStored == 304):
			o = by[hsid]
		}
		e := r.exchFor(s.Owner, s.OwnerOp)
		if o != nil && (o.SeqResp > s.Seq || (e != nil && r.tainted(e))) {
			// the provenance marker names a response the origin had not sent yet, or the value descends from bytes
			// an injected store fault has changed (a flipped digit of the marker itself): not attributable
			o = nil
		}
		if o != nil {
			if why := storeForbidden(o); why != "" {
				sig := why
				if i := strings.IndexAny(sig, "0123456789"); i > 0 && !strings.HasPrefix(sig, "status") {
					sig = strings.TrimSpace(sig[:i])
				}
				ee := e
				j.Violations = append(j.Violations, Violation{Prop: "C06", Rule: "forbidden-store", Seq: s.Seq, Client: clientOf(ee), Op: s.OwnerOp,
					Msg: fmt.Sprintf("origin response sid=%d (%s %s -> %d, cc=%q) was written to the store under key %q although it must not be stored: %s", o.SID, o.Req.Method, o.Req.URL, o.Status, o.Header.Get("Cache-Control"), s.Key, why),
					Sig: "forbidden-store:" + sig})
			}
		}
		// nothing of a response is written when its request or the response itself carries no-store: that holds for
		// the 304s whose fields a freshened entry contains as well (their status is what a 304 is, not a reason)
		if e == nil || !r.tainted(e) {
			for _, sid := range s.SIDs {
				l := by[sid]
				if l == nil || !l.Is304 || l.Bare || l.SeqResp > s.Seq {
					continue
				}
				why := ""
				switch {
				case parseCC(l.Req.Header).has("no-store"):
					why = "request no-store"
				case parseCC(l.Header).has("no-store"):
					why = "response no-store"
				}
				if why != "" {
					j.Violations = append(j.Violations, Violation{Prop: "C06", Rule: "forbidden-store", Seq: s.Seq, Client: clientOf(e), Op: s.OwnerOp,
						Msg: fmt.Sprintf("header fields of the 304 sid=%d (%s %s, request cc=%q, response cc=%q) were written to the store under key %q although nothing of it may be stored: %s", l.SID, l.Req.Method, l.Req.URL, l.Req.Header.Get("Cache-Control"), l.Header.Get("Cache-Control"), s.Key, why),
						Sig: "forbidden-store:" + why + " (304)"})
				}
			}
		}
		// hop-by-hop material never reaches the store
		j.count("C05", "hop-by-hop-leak")
		if hopMark.Match(s.Val) {
			j.Violations = append(j.Violations, Violation{Prop: "C05", Rule: "hop-by-hop-leak", Seq: s.Seq, Client: clientOf(e), Op: s.OwnerOp,
				Msg: fmt.Sprintf("a hop-by-hop field value reached the store under key %q", s.Key), Sig: "hop-by-hop-leak:store"})
		}
	}
}

// judgeIncompleteWrites: a response whose body could not be read completely leaves no trace in the store - not
// an entry, and not a record in the variant index either.
func judgeIncompleteWrites(r *Run, j *Judged) {
	for _, u := range r.Calls {
		o := u.Resp
		if o == nil || o.Complete || o.Is304 || o.Req.Method != "GET" || u.SeqEnd == 0 {
			continue
		}
		e := r.exchFor(u.Owner, u.OwnerOp)
		if e == nil || r.tainted(e) {
			continue
		}
		// the store writes of this call's goroutine lineage between its answer and its next origin call (or its end)
		next := ^uint64(0)
		for _, v := range r.Calls {
			if v != u && v.Gor == u.Gor && v.SeqStart > o.SeqResp && v.SeqStart < next {
				next = v.SeqStart
			}
		}
		j.count("C06", "forbidden-store")
		for _, s := range r.Store {
			if s.Kind != "set" || s.Seq < o.SeqResp || s.Seq > next || s.Owner != u.Owner || s.OwnerOp != u.OwnerOp {
				continue
			}
			// (the goroutine names of a client's background work begin with the client's name too: a foreground
			// call owns the foreground writes of its exchange, a background call those of its own lineage)
			if (u.Fg && !s.Fg) || (!u.Fg && !strings.HasPrefix(s.Gor, u.Gor)) {
				continue
			}
			if u.Fg && e.SeqRet != 0 && s.Seq > e.SeqRet {
				continue
			}
			kind := "entry"
			if s.IsIndex {
				kind = "index"
			}
			j.Violations = append(j.Violations, Violation{Prop: "C06", Rule: "forbidden-store", Seq: s.Seq, Client: clientOf(e), Op: s.OwnerOp,
				Msg: fmt.Sprintf("the body of origin response sid=%d (%s %s -> %d) could not be read completely, yet its exchange wrote the %s key %q (len %d)", o.SID, o.Req.Method, o.Req.URL, o.Status, kind, s.Key, len(s.Val)),
				Sig: "forbidden-store:body-incomplete+" + kind})
			break
		}
	}
}

func clientOf(e *Exch) int {
	if e == nil {
		return -1
	}
	return e.Client
}

func judgeServedForbidden(r *Run, j *Judged, c *cls) {
	e := c.e
	if c.method == "GET" && e.Req.Header.Get("If-None-Match") == "" && e.Req.Header.Get("If-Modified-Since") == "" && e.Req.Header.Get("Range") == "" {
		j.count("C06", "unconditional-304")
		// (an origin that answers 304 to an unconditional request is merely forwarded)
		cacheMade := c.stored
		for _, u := range c.fg {
			if u.Req.Header.Get("If-None-Match") != "" || u.Req.Header.Get("If-Modified-Since") != "" {
				cacheMade = true
			}
		}
		if e.Status == 304 && cacheMade {
			j.fail("C06", "unconditional-304", e, "", "unconditional GET answered with 304 (X-Httpcache-Status=%v, stored=%v)", c.status, c.stored)
		}
	}
	if !c.stored || c.B == nil {
		return
	}
	j.count("C06", "forbidden-served")
	if why := storeForbidden(c.B); why != "" {
		j.fail("C06", "forbidden-served", e, "", "response sid=%d served from the store although it must never have been stored: %s", c.B.SID, why)
	}
}

// ---------------- C17 (whole stack): a tampered encrypted entry is a miss ----------------

func judgeTamper(r *Run, j *Judged, cl []*cls) {
	if r.Scn.Backend != "fsenc" {
		return
	}
	if a, b, n := r.cipherTwins(); n >= 2 {
		j.count("C17", "deterministic-ciphertext")
		if a != "" {
			j.fail("C17", "deterministic-ciphertext", nil, "files", "two files written by the encrypting backend, %s and %s, received byte-identical contents", a, b)
		}
	}
	if len(r.Corrupted) == 0 {
		return
	}
	for _, cr := range r.Corrupted {
		// the entry stays tampered until the key is written again
		until := ^uint64(0)
		for _, s := range r.Store {
			// (a Set replaces the file when it completes: one that was under way when the file was modified heals it too)
			if s.Kind == "set" && s.Key == cr.Key && s.Applied && s.SeqRet > cr.Seq && s.SeqRet < until {
				until = s.SeqRet
			}
		}
		for _, s := range r.Store {
			if s.Kind != "get" || s.Key != cr.Key || s.Seq <= cr.Seq || s.Seq >= until || s.Fault != "" {
				continue
			}
			j.count("C17", "tamper-accepted")
			if s.Err == "" {
				e := r.exchFor(s.Owner, s.OwnerOp)
				j.fail("C17", "tamper-accepted", e, "transport", "Get of key %q returned %d bytes although its file %s had been modified at rest (seq %d)", s.Key, len(s.Val), cr.Path, cr.Seq)
			}
		}
	}
	for _, c := range cl {
		if !c.stored || c.B == nil {
			continue
		}
		for _, cr := range r.Corrupted {
			if !strings.Contains(cr.Key, "#") {
				continue
			}
			// was this response's entry tampered with after it was last written and before this exchange read it?
			readSeq := uint64(0)
			for _, s := range c.e.Store {
				if s.Kind == "get" && s.Key == cr.Key && s.Fg {
					readSeq = s.Seq
				}
			}
			lastSet := uint64(0)
			for _, s := range r.Store {
				// (a Set replaces the file when it completes)
				if s.Kind == "set" && s.Key == cr.Key && s.Applied && s.SeqRet != 0 && s.SeqRet < readSeq && s.SeqRet > lastSet {
					lastSet = s.SeqRet
				}
			}
			if readSeq != 0 && cr.Seq > lastSet && cr.Seq < readSeq {
				j.count("C17", "tamper-served")
				j.fail("C17", "tamper-served", c.e, "", "stored response sid=%d served from entry %q whose file had been modified at rest (seq %d)", c.B.SID, cr.Key, cr.Seq)
			}
		}
	}
}
