// Package kit is the deterministic scheduler: real goroutines park at seam
// operations and are released one at a time; who runs next, stalls and every
// other run-time decision come from a choice tape.
package kit

import (
	"bytes"
	"crypto/sha256"
	"encoding/hex"
	"fmt"
	"math/rand/v2"
	"runtime"
	"sort"
	"strconv"
	"strings"
	"sync"
	"sync/atomic"
	"testing/synctest"
	"time"
)

// ---------------- tape ----------------

// Tape is the only source of run-time choice. Explicit decisions are
// consumed first (modulo the number of alternatives); afterwards the PRNG is
// used if present, else 0 (the simplest alternative).
type Tape struct {
	List []int
	pos  int
	rng  *rand.Rand
	Rec  []int
}

func NewTape(list []int, seed uint64, useRNG bool) *Tape {
	t := &Tape{List: list}
	if useRNG {
		t.rng = rand.New(rand.NewPCG(seed, 0x9e3779b97f4a7c15))
	}
	return t
}

func (t *Tape) Next(n int) int {
	if n <= 1 {
		return 0
	}
	v := 0
	switch {
	case t.pos < len(t.List):
		v = t.List[t.pos] % n
		if v < 0 {
			v = -v
		}
	case t.rng != nil:
		v = t.rng.IntN(n)
	}
	t.pos++
	t.Rec = append(t.Rec, v)
	return v
}

// ---------------- events ----------------

type Event struct {
	Seq  uint64
	T    time.Duration // virtual time since the bubble epoch
	G    string        // logical goroutine id
	Kind string
	Info string
}

func (e Event) String() string {
	return fmt.Sprintf("%05d %14d %-34s %-14s %s", e.Seq, int64(e.T), e.G, e.Kind, e.Info)
}

// ---------------- goroutine identity ----------------

type Gor struct {
	ID     string
	Goid   int64
	Epoch  int
	Owner  string // name of the registered root ancestor (client name)
	OwnerV int    // value of the owner's "current op" when this goroutine was first seen
	kids   map[string]int
	kidAt  map[string]uint64
	opVal  int
}

// SetOp records the owner-defined current operation number of a registered goroutine.
func (g *Gor) SetOp(v int) { g.opVal = v }

type parked struct {
	g          *Gor
	desc       string
	ch         chan bool // true = killed
	prio       int
	stallUntil time.Time
}

type Sched struct {
	Strategy string  // "random" | "sticky" | "pct" | "fifo"
	P        int     // sticky: percent probability to continue the same lineage
	StallPct int     // percent chance per step to stall one parked goroutine
	StallNs  []int64 // stall durations to draw from
}

type Sim struct {
	mu     sync.Mutex
	T      *Tape
	Sched  Sched
	Epoch0 time.Time

	gors    map[int64]*Gor
	parked  map[string]*parked
	wake    chan struct{}
	abort   chan struct{}
	aborted bool
	epoch   int

	seq   uint64
	Steps uint64
	Log   []Event
	hash  interface {
		Write([]byte) (int, error)
		Sum([]byte) []byte
	}

	last      string // lineage root of the last granted goroutine
	lastID    string
	prios     map[string]int
	Ambiguous int
	Stalls    int
	Hung      bool
	KeepLog   bool

	sleepers             int
	sleepSeq             uint64
	sleepUntil           map[uint64]time.Time
	barrier, barrierWant atomic.Int32

	// Pair mode (race detection): release two at once.
	Pair bool
}

func New(t *Tape, sc Sched) *Sim {
	return &Sim{
		T: t, Sched: sc, Epoch0: time.Now(),
		gors: map[int64]*Gor{}, parked: map[string]*parked{},
		wake: make(chan struct{}, 1), abort: make(chan struct{}),
		hash: sha256.New(), prios: map[string]int{}, KeepLog: true, sleepUntil: map[uint64]time.Time{},
	}
}

func goid() int64 {
	var buf [64]byte
	n := runtime.Stack(buf[:], false)
	// "goroutine 123 ["
	s := buf[len("goroutine "):n]
	i := bytes.IndexByte(s, ' ')
	id, _ := strconv.ParseInt(string(s[:i]), 10, 64)
	return id
}

// Register names the calling goroutine (harness clients, helpers).
func (s *Sim) Register(name string) *Gor {
	id := goid()
	s.mu.Lock()
	defer s.mu.Unlock()
	g := &Gor{ID: name, Goid: id, Epoch: s.epoch, Owner: name, kids: map[string]int{}, kidAt: map[string]uint64{}}
	s.gors[id] = g
	return g
}

// parseCreatedBy extracts "created by F in goroutine N" from a single goroutine's stack text.
func parseCreatedBy(st string) (fn string, creator int64, ok bool) {
	i := strings.LastIndex(st, "created by ")
	if i < 0 {
		return "", 0, false
	}
	line := st[i+len("created by "):]
	if j := strings.IndexByte(line, '\n'); j >= 0 {
		line = line[:j]
	}
	k := strings.LastIndex(line, " in goroutine ")
	if k < 0 {
		return "", 0, false
	}
	c, err := strconv.ParseInt(strings.TrimSpace(line[k+len(" in goroutine "):]), 10, 64)
	if err != nil {
		return "", 0, false
	}
	f := line[:k]
	// shorten: keep what follows the last '/' then drop the package qualifier
	if j := strings.LastIndexByte(f, '/'); j >= 0 {
		f = f[j+1:]
	}
	if j := strings.IndexByte(f, '.'); j >= 0 {
		f = f[j+1:]
	}
	f = strings.NewReplacer("(*", "", ")", "", "[...]", "").Replace(f)
	return f, c, true
}

func ownStack() string {
	buf := make([]byte, 16<<10)
	for {
		n := runtime.Stack(buf, false)
		if n < len(buf) {
			return string(buf[:n])
		}
		buf = make([]byte, 2*len(buf))
	}
}

func allStacks() map[int64]string {
	buf := make([]byte, 256<<10)
	for {
		n := runtime.Stack(buf, true)
		if n < len(buf) {
			buf = buf[:n]
			break
		}
		buf = make([]byte, 2*len(buf))
	}
	out := map[int64]string{}
	for _, blk := range strings.Split(string(buf), "\n\n") {
		if !strings.HasPrefix(blk, "goroutine ") {
			continue
		}
		r := blk[len("goroutine "):]
		i := strings.IndexByte(r, ' ')
		if i < 0 {
			continue
		}
		id, err := strconv.ParseInt(r[:i], 10, 64)
		if err == nil {
			out[id] = blk
		}
	}
	return out
}

// Self resolves the logical identity of the calling goroutine.
func (s *Sim) Self() *Gor {
	id := goid()
	s.mu.Lock()
	g := s.gors[id]
	s.mu.Unlock()
	if g != nil {
		return g
	}
	// chain of (goid, fn) from self up to the first known ancestor
	type link struct {
		id int64
		fn string
	}
	var chain []link
	var all map[int64]string
	cur, st := id, ownStack()
	var anc *Gor
	for depth := 0; depth < 16; depth++ {
		fn, creator, ok := parseCreatedBy(st)
		if !ok {
			break
		}
		chain = append(chain, link{cur, fn})
		s.mu.Lock()
		anc = s.gors[creator]
		s.mu.Unlock()
		if anc != nil {
			break
		}
		if all == nil {
			all = allStacks()
		}
		st, ok = all[creator]
		if !ok {
			break
		}
		cur = creator
	}
	s.mu.Lock()
	defer s.mu.Unlock()
	if g = s.gors[id]; g != nil {
		return g
	}
	if anc == nil {
		s.Ambiguous++
		anc = &Gor{ID: "orphan", Epoch: s.epoch, Owner: "orphan", kids: map[string]int{}, kidAt: map[string]uint64{}}
	}
	for i := len(chain) - 1; i >= 0; i-- {
		l := chain[i]
		if ex := s.gors[l.id]; ex != nil {
			anc = ex
			continue
		}
		anc.kids[l.fn]++
		if at, seen := anc.kidAt[l.fn]; seen && at == s.Steps && s.Steps > 0 {
			s.Ambiguous++
		}
		anc.kidAt[l.fn] = s.Steps
		ng := &Gor{
			ID: anc.ID + "/" + l.fn + "#" + strconv.Itoa(anc.kids[l.fn]), Goid: l.id, Epoch: anc.Epoch,
			Owner: anc.Owner, OwnerV: anc.OwnerV, kids: map[string]int{}, kidAt: map[string]uint64{},
		}
		if anc.ID == anc.Owner {
			ng.OwnerV = anc.opVal
		}
		s.gors[l.id] = ng
		anc = ng
	}
	return anc
}

// ---------------- yield points ----------------

// Aborted reports whether the run is over (free-running unwinding phase).
func (s *Sim) Aborted() bool {
	s.mu.Lock()
	defer s.mu.Unlock()
	return s.aborted
}

func (s *Sim) AbortCh() <-chan struct{} { return s.abort }

// Dead reports whether g belongs to a crashed incarnation.
func (s *Sim) Dead(g *Gor) bool {
	s.mu.Lock()
	defer s.mu.Unlock()
	return g.Epoch != s.epoch
}

func (s *Sim) Epoch() int {
	s.mu.Lock()
	defer s.mu.Unlock()
	return s.epoch
}

// Crash starts a new incarnation: every goroutine of the old one terminates at
// its next yield point; the ones parked now are released with a kill.
// The caller (which must hold the grant) survives until its own next yield.
func (s *Sim) Crash() {
	s.mu.Lock()
	s.epoch++
	s.mu.Unlock()
}

// Adopt moves the calling registered goroutine into the current incarnation.
func (s *Sim) Adopt(g *Gor) {
	s.mu.Lock()
	g.Epoch = s.epoch
	s.mu.Unlock()
}

// Yield parks the calling goroutine until the scheduler grants it the next
// step. It returns the caller's identity. The caller holds the grant until it
// parks again, blocks, or exits.
func (s *Sim) Yield(desc string) *Gor { return s.YieldAfter(desc, 0) }

// YieldAfter is Yield for a goroutine that has nothing to do before d of virtual time has passed (a lock it
// wants is held): the scheduler does not consider it until then, so whoever holds the lock gets to run.
func (s *Sim) YieldAfter(desc string, d time.Duration) *Gor {
	g := s.Self()
	s.mu.Lock()
	if s.aborted {
		s.mu.Unlock()
		return g
	}
	if g.Epoch != s.epoch {
		s.mu.Unlock()
		runtime.Goexit()
	}
	p := &parked{g: g, desc: desc, ch: make(chan bool)}
	if d > 0 {
		p.stallUntil = time.Now().Add(d)
	}
	if _, dup := s.parked[g.ID]; dup {
		s.Ambiguous++
		g = &Gor{ID: g.ID + "!dup" + strconv.Itoa(s.Ambiguous), Goid: g.Goid, Epoch: g.Epoch, Owner: g.Owner}
		p.g = g
	}
	s.parked[g.ID] = p
	s.mu.Unlock()
	select {
	case s.wake <- struct{}{}:
	default:
	}
	if killed := <-p.ch; killed {
		runtime.Goexit()
	}
	if s.Pair {
		// rendezvous of the two goroutines released together, so that their segments really overlap
		// (atomics order only what came before; the segments that follow stay unordered for the race detector)
		s.barrier.Add(1)
		for i := 0; i < 2000 && s.barrier.Load() < s.barrierWant.Load(); i++ {
			runtime.Gosched()
		}
	}
	return g
}

// Sleep blocks for d of virtual time (or until done is closed / the run is
// aborted) and then yields. It reports whether done fired first.
func (s *Sim) Sleep(d time.Duration, done <-chan struct{}, desc string) (cancelled bool) {
	var sleepID uint64
	if d > 0 || d < 0 {
		var tc <-chan time.Time
		if d > 0 {
			tm := time.NewTimer(d)
			defer tm.Stop()
			tc = tm.C
			s.mu.Lock()
			s.sleepers++
			s.sleepSeq++
			sleepID = s.sleepSeq
			s.sleepUntil[sleepID] = time.Now().Add(d)
			s.mu.Unlock()
		}
		select {
		case <-tc:
		case <-done:
		case <-s.abort:
		}
		// when the timer and the cancellation are due at the same virtual instant, select picks at
		// random: decide the tie here (cancellation wins) so that the execution stays a function of the seed
		select {
		case <-done:
			cancelled = true
		default:
		}
		if d > 0 {
			s.mu.Lock()
			s.sleepers--
			delete(s.sleepUntil, sleepID)
			s.mu.Unlock()
		}
	}
	s.Yield(desc)
	return cancelled
}

// Event appends to the log. Only the goroutine holding the grant may call it.
func (s *Sim) Event(g *Gor, kind, info string) uint64 {
	s.mu.Lock()
	defer s.mu.Unlock()
	if s.aborted {
		return s.seq
	}
	s.seq++
	id := "-"
	if g != nil {
		id = g.ID
	}
	e := Event{Seq: s.seq, T: time.Since(s.Epoch0), G: id, Kind: kind, Info: info}
	fmt.Fprintf(s.hash, "%d|%d|%s|%s|%s\n", e.Seq, int64(e.T), e.G, e.Kind, e.Info)
	if s.KeepLog {
		s.Log = append(s.Log, e)
	}
	return s.seq
}

func (s *Sim) Seq() uint64 {
	s.mu.Lock()
	defer s.mu.Unlock()
	return s.seq
}

func (s *Sim) Now() time.Duration { return time.Since(s.Epoch0) }

func (s *Sim) Digest() string { return hex.EncodeToString(s.hash.Sum(nil))[:16] }

// ---------------- scheduler loop ----------------

func lineageRoot(id string) string {
	if i := strings.IndexByte(id, '/'); i >= 0 {
		return id[:i]
	}
	return id
}

func (s *Sim) candidates(now time.Time) (ids []string, nextStall time.Time) {
	for id, p := range s.parked {
		if p.g.Epoch != s.epoch {
			continue
		}
		if !p.stallUntil.IsZero() && p.stallUntil.After(now) {
			if nextStall.IsZero() || p.stallUntil.Before(nextStall) {
				nextStall = p.stallUntil
			}
			continue
		}
		ids = append(ids, id)
	}
	sort.Strings(ids)
	return
}

func (s *Sim) pick(ids []string) int {
	switch s.Sched.Strategy {
	case "fifo":
		return 0
	case "sticky":
		for i, id := range ids {
			if id == s.lastID || lineageRoot(id) == s.last {
				if s.T.Next(100) < s.Sched.P {
					return i
				}
				break
			}
		}
		return s.T.Next(len(ids))
	case "pct":
		best, bi := -1, 0
		for i, id := range ids {
			r := lineageRoot(id)
			pr, ok := s.prios[r]
			if !ok {
				pr = 1 + s.T.Next(1000)
				s.prios[r] = pr
			}
			if pr > best {
				best, bi = pr, i
			}
		}
		// change point: occasionally demote the leader
		if s.T.Next(100) < 3 {
			s.prios[lineageRoot(ids[bi])] = 0
		}
		return bi
	default:
		return s.T.Next(len(ids))
	}
}

// Run drives the simulation until finished() holds and nothing has been
// runnable for the drain span, or until nothing can make progress (hang).
// It must be called from the bubble's root goroutine.
func (s *Sim) Run(finished func() bool, drain time.Duration) {
	idleSince := time.Time{}
	for {
		synctest.Wait()
		now := time.Now()
		s.mu.Lock()
		// kill parked goroutines of dead incarnations, then let them unwind
		killed := false
		for id, p := range s.parked {
			if p.g.Epoch != s.epoch {
				delete(s.parked, id)
				p.ch <- true
				killed = true
			}
		}
		if killed {
			s.mu.Unlock()
			continue
		}
		ids, nextStall := s.candidates(now)
		if len(ids) == 0 {
			sleepers := s.sleepers
			s.mu.Unlock()
			if sleepers > 0 {
				// a harness sleeper with a finite deadline will park later (or, if its incarnation was killed
				// meanwhile, end without a word: hence a timed wait)
				idleSince = time.Time{}
				s.mu.Lock()
				wait := time.Duration(1)
				for _, dl := range s.sleepUntil {
					if d := dl.Sub(now) + 1; d > wait {
						wait = d
					}
				}
				s.mu.Unlock()
				tm := time.NewTimer(wait)
				select {
				case <-s.wake:
				case <-tm.C:
				}
				tm.Stop()
				continue
			}
			if idleSince.IsZero() {
				idleSince = now
			}
			if now.Sub(idleSince) >= drain && nextStall.IsZero() {
				if !finished() {
					s.Hung = true
				}
				return
			}
			wait := drain - now.Sub(idleSince)
			if !nextStall.IsZero() && nextStall.Sub(now) < wait {
				wait = nextStall.Sub(now)
			}
			if wait <= 0 {
				wait = 1
			}
			tm := time.NewTimer(wait)
			select {
			case <-s.wake:
			case <-tm.C:
			}
			tm.Stop()
			continue
		}
		idleSince = time.Time{}
		// stall fault: withhold one runnable goroutine for a while
		if s.Sched.StallPct > 0 && len(s.Sched.StallNs) > 0 && s.T.Next(100) < s.Sched.StallPct {
			v := ids[s.T.Next(len(ids))]
			dur := time.Duration(s.Sched.StallNs[s.T.Next(len(s.Sched.StallNs))])
			pv := s.parked[v]
			pv.stallUntil = now.Add(dur)
			s.Stalls++
			s.mu.Unlock()
			s.Event(pv.g, "stall", fmt.Sprintf("%s for %d", pv.desc, int64(dur)))
			continue
		}
		i := s.pick(ids)
		p := s.parked[ids[i]]
		delete(s.parked, ids[i])
		var p2 *parked
		if s.Pair && len(ids) > 1 {
			j := s.T.Next(len(ids) - 1)
			if j >= i {
				j++
			}
			p2 = s.parked[ids[j]]
			delete(s.parked, ids[j])
		}
		s.Steps++
		Beat.Add(1)
		s.last, s.lastID = lineageRoot(p.g.ID), p.g.ID
		s.mu.Unlock()
		if s.Pair {
			s.barrier.Store(0)
			if p2 != nil {
				s.barrierWant.Store(2)
			} else {
				s.barrierWant.Store(1)
			}
		}
		p.ch <- false
		if p2 != nil {
			p2.ch <- false
		}
	}
}

// Abort ends the scheduled phase: all parked goroutines are released, later
// yields return at once, Sleep returns at once, nothing more is logged.
func (s *Sim) Abort() {
	s.mu.Lock()
	if s.aborted {
		s.mu.Unlock()
		return
	}
	s.aborted = true
	close(s.abort)
	ps := s.parked
	s.parked = map[string]*parked{}
	s.mu.Unlock()
	for _, p := range ps {
		p.ch <- p.g.Epoch != s.epoch
	}
}

// BubbleGoroutines returns the stack blocks of all goroutines of the calling
// goroutine's bubble except the caller.
func BubbleGoroutines() []string {
	me := goid()
	all := allStacks()
	mine := all[me]
	tag := ""
	if i := strings.Index(mine, "synctest bubble "); i >= 0 {
		j := strings.IndexAny(mine[i:], "]\n,")
		tag = mine[i : i+j]
	}
	var out []string
	for id, st := range all {
		if id == me || tag == "" {
			continue
		}
		hdr := st
		if k := strings.IndexByte(st, '\n'); k >= 0 {
			hdr = st[:k]
		}
		if strings.Contains(hdr, tag+"]") || strings.Contains(hdr, tag+",") {
			out = append(out, st)
		}
	}
	sort.Strings(out)
	return out
}

// Beat counts scheduling steps of all simulations of this process. A watchdog outside the bubble (real
// clock) uses it to tell a goroutine that computes forever without reaching a seam from progress.
var Beat atomic.Uint64
