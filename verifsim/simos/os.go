package simos

import (
	"io"
	"io/fs"
	"os"
	"path"
	"strconv"
	"strings"
	"syscall"
	"time"
)

// ---- re-exports of package os that do not touch the disk ----

type (
	FileMode     = fs.FileMode
	FileInfo     = fs.FileInfo
	DirEntry     = fs.DirEntry
	PathError    = fs.PathError
	LinkError    = os.LinkError
	SyscallError = os.SyscallError
	Signal       = os.Signal
)

const (
	O_RDONLY = os.O_RDONLY
	O_WRONLY = os.O_WRONLY
	O_RDWR   = os.O_RDWR
	O_APPEND = os.O_APPEND
	O_CREATE = os.O_CREATE
	O_EXCL   = os.O_EXCL
	O_SYNC   = os.O_SYNC
	O_TRUNC  = os.O_TRUNC

	SEEK_SET = os.SEEK_SET
	SEEK_CUR = os.SEEK_CUR
	SEEK_END = os.SEEK_END

	PathSeparator     = os.PathSeparator
	PathListSeparator = os.PathListSeparator
	DevNull           = os.DevNull

	ModeDir        = fs.ModeDir
	ModeAppend     = fs.ModeAppend
	ModeExclusive  = fs.ModeExclusive
	ModeTemporary  = fs.ModeTemporary
	ModeSymlink    = fs.ModeSymlink
	ModeDevice     = fs.ModeDevice
	ModeNamedPipe  = fs.ModeNamedPipe
	ModeSocket     = fs.ModeSocket
	ModeSetuid     = fs.ModeSetuid
	ModeSetgid     = fs.ModeSetgid
	ModeCharDevice = fs.ModeCharDevice
	ModeSticky     = fs.ModeSticky
	ModeIrregular  = fs.ModeIrregular
	ModeType       = fs.ModeType
	ModePerm       = fs.ModePerm
)

var (
	ErrInvalid          = fs.ErrInvalid
	ErrPermission       = fs.ErrPermission
	ErrExist            = fs.ErrExist
	ErrNotExist         = fs.ErrNotExist
	ErrClosed           = fs.ErrClosed
	ErrNoDeadline       = os.ErrNoDeadline
	ErrDeadlineExceeded = os.ErrDeadlineExceeded
	ErrProcessDone      = os.ErrProcessDone

	Stdin  = os.Stdin
	Stdout = os.Stdout
	Stderr = os.Stderr
	Args   = os.Args
)

func Getenv(key string) string                    { return os.Getenv(key) }
func LookupEnv(key string) (string, bool)         { return os.LookupEnv(key) }
func Setenv(key, value string) error              { return os.Setenv(key, value) }
func Unsetenv(key string) error                   { return os.Unsetenv(key) }
func Environ() []string                           { return os.Environ() }
func ExpandEnv(s string) string                   { return os.ExpandEnv(s) }
func Expand(s string, m func(string) string) string { return os.Expand(s, m) }
func Getpid() int                                 { return os.Getpid() }
func Getppid() int                                { return os.Getppid() }
func Getuid() int                                 { return os.Getuid() }
func Geteuid() int                                { return os.Geteuid() }
func Getgid() int                                 { return os.Getgid() }
func Getegid() int                                { return os.Getegid() }
func Getpagesize() int                            { return os.Getpagesize() }
func Hostname() (string, error)                   { return "simhost", nil }
func Exit(code int)                               { os.Exit(code) }
func IsExist(err error) bool                      { return os.IsExist(err) }
func IsNotExist(err error) bool                   { return os.IsNotExist(err) }
func IsPermission(err error) bool                 { return os.IsPermission(err) }
func IsTimeout(err error) bool                    { return os.IsTimeout(err) }
func IsPathSeparator(c uint8) bool                { return os.IsPathSeparator(c) }
func NewSyscallError(s string, err error) error   { return os.NewSyscallError(s, err) }
func SameFile(a, b FileInfo) bool                 { return a.Name() == b.Name() && a.Size() == b.Size() && a.ModTime().Equal(b.ModTime()) }

// Directory-location helpers point into the simulated disk.
func UserCacheDir() (string, error)  { return "/simhome/.cache", nil }
func UserConfigDir() (string, error) { return "/simhome/.config", nil }
func UserHomeDir() (string, error)   { return "/simhome", nil }
func TempDir() string                { return "/simtmp" }
func Getwd() (string, error)         { return "/", nil }

// ---- File ----

type File struct {
	n      *node // nil after Close
	name   string
	abs    string
	pos    int64
	flag   int
	dirpos int
	closed bool
}

func (f *File) Name() string { return f.name }
func (f *File) Fd() uintptr  { return ^uintptr(0) }

func (f *File) check(op string) error {
	if f == nil {
		return ErrInvalid
	}
	if f.closed {
		return perr(op, f.name, ErrClosed)
	}
	return nil
}

func (f *File) readable() bool { return f.flag&(O_WRONLY|O_RDWR) != O_WRONLY }
func (f *File) writable() bool { return f.flag&(O_WRONLY|O_RDWR) != 0 }

func (f *File) Read(b []byte) (int, error) {
	if err := f.check("read"); err != nil {
		return 0, err
	}
	if len(b) == 0 {
		return 0, nil
	}
	dec := before(&Op{Kind: "read", Path: f.abs, N: len(b), Off: f.pos})
	if dec.Err != nil {
		return 0, perr("read", f.name, dec.Err)
	}
	d.mu.Lock()
	defer d.mu.Unlock()
	if f.n.dir {
		return 0, perr("read", f.name, syscall.EISDIR)
	}
	if !f.readable() {
		return 0, perr("read", f.name, syscall.EBADF)
	}
	if f.pos >= int64(len(f.n.data)) {
		return 0, io.EOF
	}
	want := len(b)
	if dec.N > 0 && dec.N < want {
		want = dec.N
	}
	n := copy(b[:want], f.n.data[f.pos:])
	f.pos += int64(n)
	return n, nil
}

func (f *File) ReadAt(b []byte, off int64) (int, error) {
	if err := f.check("read"); err != nil {
		return 0, err
	}
	if off < 0 {
		return 0, perr("readat", f.name, syscall.EINVAL)
	}
	dec := before(&Op{Kind: "read", Path: f.abs, N: len(b), Off: off})
	if dec.Err != nil {
		return 0, perr("read", f.name, dec.Err)
	}
	d.mu.Lock()
	defer d.mu.Unlock()
	if f.n.dir {
		return 0, perr("read", f.name, syscall.EISDIR)
	}
	if off >= int64(len(f.n.data)) {
		return 0, io.EOF
	}
	n := copy(b, f.n.data[off:])
	if n < len(b) {
		return n, io.EOF
	}
	return n, nil
}

func (f *File) writeAt(b []byte, off int64) {
	end := off + int64(len(b))
	if int64(len(f.n.data)) < end {
		nd := make([]byte, end)
		copy(nd, f.n.data)
		f.n.data = nd
	}
	copy(f.n.data[off:], b)
	f.n.mtime = time.Now()
}

func (f *File) Write(b []byte) (int, error) {
	if c := WriteChunk; c > 0 && len(b) > c {
		total := 0
		for len(b) > 0 {
			k := min(c, len(b))
			if !takeChunkBudget() {
				k = len(b) // budget of split writes used up: the rest goes in one call
			}
			n, err := f.write1(b[:k])
			total += n
			if err != nil {
				return total, err
			}
			b = b[k:]
		}
		return total, nil
	}
	return f.write1(b)
}

func (f *File) write1(b []byte) (int, error) {
	if err := f.check("write"); err != nil {
		return 0, err
	}
	if !f.writable() {
		return 0, perr("write", f.name, syscall.EBADF)
	}
	if len(b) == 0 {
		return 0, nil
	}
	dec := before(&Op{Kind: "write", Path: f.abs, N: len(b), Off: f.pos, Data: b})
	n := len(b)
	if dec.Err != nil {
		n = min(max(dec.N, 0), len(b))
	}
	var content []byte
	d.mu.Lock()
	if f.n.dir {
		d.mu.Unlock()
		return 0, perr("write", f.name, syscall.EBADF)
	}
	if n > 0 {
		if f.flag&O_APPEND != 0 {
			f.pos = int64(len(f.n.data))
		}
		f.writeAt(b[:n], f.pos)
		f.pos += int64(n)
		content = append([]byte(nil), f.n.data...)
	}
	d.mu.Unlock()
	if n > 0 {
		wrote(f.abs, content)
	}
	if dec.Err != nil {
		return n, perr("write", f.name, dec.Err)
	}
	return n, nil
}

func (f *File) WriteAt(b []byte, off int64) (int, error) {
	if err := f.check("write"); err != nil {
		return 0, err
	}
	if f.flag&O_APPEND != 0 {
		return 0, perr("writeat", f.name, ErrInvalid)
	}
	if off < 0 {
		return 0, perr("writeat", f.name, syscall.EINVAL)
	}
	if !f.writable() {
		return 0, perr("write", f.name, syscall.EBADF)
	}
	dec := before(&Op{Kind: "write", Path: f.abs, N: len(b), Off: off, Data: b})
	n := len(b)
	if dec.Err != nil {
		n = min(max(dec.N, 0), len(b))
	}
	var content []byte
	d.mu.Lock()
	if n > 0 {
		f.writeAt(b[:n], off)
		content = append([]byte(nil), f.n.data...)
	}
	d.mu.Unlock()
	if n > 0 {
		wrote(f.abs, content)
	}
	if dec.Err != nil {
		return n, perr("write", f.name, dec.Err)
	}
	return n, nil
}

func (f *File) WriteString(s string) (int, error) { return f.Write([]byte(s)) }

func (f *File) ReadFrom(r io.Reader) (int64, error) {
	return io.Copy(struct{ io.Writer }{f}, r)
}

func (f *File) WriteTo(w io.Writer) (int64, error) {
	return io.Copy(w, struct{ io.Reader }{f})
}

func (f *File) Seek(offset int64, whence int) (int64, error) {
	if err := f.check("seek"); err != nil {
		return 0, err
	}
	d.mu.Lock()
	defer d.mu.Unlock()
	var np int64
	switch whence {
	case io.SeekStart:
		np = offset
	case io.SeekCurrent:
		np = f.pos + offset
	case io.SeekEnd:
		np = int64(len(f.n.data)) + offset
	default:
		return 0, perr("seek", f.name, syscall.EINVAL)
	}
	if np < 0 {
		return 0, perr("seek", f.name, syscall.EINVAL)
	}
	f.pos = np
	f.dirpos = 0
	return np, nil
}

func (f *File) Sync() error {
	if err := f.check("sync"); err != nil {
		return err
	}
	dec := before(&Op{Kind: "sync", Path: f.abs})
	if dec.Err != nil {
		return perr("sync", f.name, dec.Err)
	}
	return nil
}

func (f *File) Truncate(size int64) error {
	if err := f.check("truncate"); err != nil {
		return err
	}
	if size < 0 || !f.writable() {
		return perr("truncate", f.name, syscall.EINVAL)
	}
	dec := before(&Op{Kind: "truncate", Path: f.abs, N: int(size)})
	if dec.Err != nil {
		return perr("truncate", f.name, dec.Err)
	}
	d.mu.Lock()
	defer d.mu.Unlock()
	if f.n.dir {
		return perr("truncate", f.name, syscall.EINVAL)
	}
	if int64(len(f.n.data)) > size {
		f.n.data = f.n.data[:size]
	} else {
		nd := make([]byte, size)
		copy(nd, f.n.data)
		f.n.data = nd
	}
	f.n.mtime = time.Now()
	return nil
}

func (f *File) Stat() (FileInfo, error) {
	if err := f.check("stat"); err != nil {
		return nil, err
	}
	dec := before(&Op{Kind: "stat", Path: f.abs})
	if dec.Err != nil {
		return nil, perr("stat", f.name, dec.Err)
	}
	d.mu.Lock()
	defer d.mu.Unlock()
	return infoOf(path.Base(f.abs), f.n), nil
}

func (f *File) Close() error {
	if f == nil {
		return ErrInvalid
	}
	if f.closed {
		return perr("close", f.name, ErrClosed)
	}
	dec := before(&Op{Kind: "close", Path: f.abs})
	f.closed = true
	if dec.Err != nil {
		return perr("close", f.name, dec.Err)
	}
	return nil
}

func (f *File) Chmod(mode FileMode) error { return nil }
func (f *File) Chown(uid, gid int) error  { return nil }
func (f *File) Chdir() error              { return perr("chdir", f.name, syscall.ENOTSUP) }

func (f *File) SetDeadline(t time.Time) error      { return perr("SetDeadline", f.name, ErrNoDeadline) }
func (f *File) SetReadDeadline(t time.Time) error  { return perr("SetReadDeadline", f.name, ErrNoDeadline) }
func (f *File) SetWriteDeadline(t time.Time) error { return perr("SetWriteDeadline", f.name, ErrNoDeadline) }

func (f *File) ReadDir(n int) ([]DirEntry, error) {
	if err := f.check("readdir"); err != nil {
		return nil, err
	}
	dec := before(&Op{Kind: "readdir", Path: f.abs})
	if dec.Err != nil {
		return nil, perr("readdirent", f.name, dec.Err)
	}
	d.mu.Lock()
	defer d.mu.Unlock()
	if !f.n.dir {
		return nil, perr("readdirent", f.name, syscall.ENOTDIR)
	}
	names := sortedNames(f.n)
	if f.dirpos > len(names) {
		f.dirpos = len(names)
	}
	names = names[f.dirpos:]
	if n > 0 {
		if len(names) == 0 {
			return nil, io.EOF
		}
		if len(names) > n {
			names = names[:n]
		}
	}
	out := make([]DirEntry, 0, len(names))
	for _, k := range names {
		out = append(out, infoOf(k, f.n.children[k]))
	}
	f.dirpos += len(names)
	return out, nil
}

func (f *File) Readdir(n int) ([]FileInfo, error) {
	es, err := f.ReadDir(n)
	out := make([]FileInfo, 0, len(es))
	for _, e := range es {
		out = append(out, e.(fileInfo))
	}
	return out, err
}

func (f *File) Readdirnames(n int) ([]string, error) {
	es, err := f.ReadDir(n)
	out := make([]string, 0, len(es))
	for _, e := range es {
		out = append(out, e.Name())
	}
	return out, err
}

// ---- path based operations (shared by package functions and Root) ----

func openAt(base *node, baseAbs, name, shown string, flag int, perm FileMode) (*File, error) {
	parts, err := splitAt(baseAbs, name)
	if err != nil {
		return nil, perr("open", shown, err)
	}
	abs := path.Join(baseAbs, path.Join(parts...))
	if abs == "" {
		abs = "/"
	}
	kind := "open"
	if flag&O_CREATE != 0 {
		kind = "create"
	}
	dec := before(&Op{Kind: kind, Path: abs})
	if dec.Err != nil {
		return nil, perr("open", shown, dec.Err)
	}
	d.mu.Lock()
	defer d.mu.Unlock()
	var n *node
	if len(parts) == 0 {
		n = base
	} else {
		p, last, err := parentOf(base, parts)
		if err != nil {
			return nil, perr("open", shown, err)
		}
		c, ok := p.children[last]
		switch {
		case ok && flag&O_CREATE != 0 && flag&O_EXCL != 0:
			return nil, perr("open", shown, syscall.EEXIST)
		case ok:
			n = c
		case flag&O_CREATE != 0:
			n = &node{mode: perm &^ 0o022 & fs.ModePerm, mtime: time.Now()}
			p.children[last] = n
			p.mtime = n.mtime
		default:
			return nil, perr("open", shown, syscall.ENOENT)
		}
	}
	wr := flag&(O_WRONLY|O_RDWR) != 0
	if n.dir && (wr || flag&O_TRUNC != 0 || flag&O_CREATE != 0) {
		return nil, perr("open", shown, syscall.EISDIR)
	}
	if flag&O_TRUNC != 0 && wr && !n.dir {
		n.data = nil
		n.mtime = time.Now()
	}
	return &File{n: n, name: shown, abs: abs, flag: flag}, nil
}

func mkdirAt(base *node, baseAbs, name, shown string, perm FileMode) error {
	parts, err := splitAt(baseAbs, name)
	if err != nil {
		return perr("mkdir", shown, err)
	}
	dec := before(&Op{Kind: "mkdir", Path: path.Join(baseAbs, path.Join(parts...))})
	if dec.Err != nil {
		return perr("mkdir", shown, dec.Err)
	}
	d.mu.Lock()
	defer d.mu.Unlock()
	if len(parts) == 0 {
		return perr("mkdir", shown, syscall.EEXIST)
	}
	p, last, err := parentOf(base, parts)
	if err != nil {
		return perr("mkdir", shown, err)
	}
	if _, ok := p.children[last]; ok {
		return perr("mkdir", shown, syscall.EEXIST)
	}
	nd := newDir()
	p.children[last] = nd
	p.mtime = nd.mtime
	return nil
}

// mkdirAllAt mirrors os.MkdirAll: one mkdir system call per missing component.
func mkdirAllAt(base *node, baseAbs, name, shown string, perm FileMode) error {
	parts, err := splitAt(baseAbs, name)
	if err != nil {
		return perr("mkdir", shown, err)
	}
	for i := range parts {
		sub := path.Join(parts[:i+1]...)
		d.mu.Lock()
		n, werr := walk(base, parts[:i+1])
		d.mu.Unlock()
		if werr == nil {
			if !n.dir {
				if base != d.root && i == len(parts)-1 {
					// os.Root.MkdirAll reports the mkdirat failure for a final component that is a file
					return perr("mkdirat", shownJoin(shown, name, sub), syscall.EEXIST)
				}
				return perr("mkdir", shownJoin(shown, name, sub), syscall.ENOTDIR)
			}
			continue
		}
		if werr != syscall.ENOENT {
			return perr("mkdir", shownJoin(shown, name, sub), werr)
		}
		if err := mkdirAt(base, baseAbs, sub, shownJoin(shown, name, sub), perm); err != nil {
			// lost a race with another creator: fine if it is a directory now
			d.mu.Lock()
			n, werr := walk(base, parts[:i+1])
			d.mu.Unlock()
			if werr == nil && n.dir {
				continue
			}
			return err
		}
	}
	return nil
}

func shownJoin(shown, name, sub string) string {
	if strings.HasPrefix(name, "/") {
		return "/" + sub
	}
	return sub
}

func removeAt(base *node, baseAbs, name, shown string) error {
	parts, err := splitAt(baseAbs, name)
	if err != nil {
		return perr("remove", shown, err)
	}
	dec := before(&Op{Kind: "remove", Path: path.Join(baseAbs, path.Join(parts...))})
	if dec.Err != nil {
		return perr("remove", shown, dec.Err)
	}
	d.mu.Lock()
	defer d.mu.Unlock()
	if len(parts) == 0 {
		return perr("remove", shown, syscall.EBUSY)
	}
	p, last, err := parentOf(base, parts)
	if err != nil {
		return perr("remove", shown, err)
	}
	c, ok := p.children[last]
	if !ok {
		return perr("remove", shown, syscall.ENOENT)
	}
	if c.dir && len(c.children) > 0 {
		return perr("remove", shown, syscall.ENOTEMPTY)
	}
	delete(p.children, last)
	p.mtime = time.Now()
	return nil
}

func removeAllAt(base *node, baseAbs, name, shown string) error {
	parts, err := splitAt(baseAbs, name)
	if err != nil {
		return perr("RemoveAll", shown, err)
	}
	dec := before(&Op{Kind: "remove", Path: path.Join(baseAbs, path.Join(parts...))})
	if dec.Err != nil {
		return perr("RemoveAll", shown, dec.Err)
	}
	d.mu.Lock()
	defer d.mu.Unlock()
	if len(parts) == 0 {
		base.children = map[string]*node{}
		return nil
	}
	p, last, err := parentOf(base, parts)
	if err != nil {
		if err == syscall.ENOENT {
			return nil
		}
		return perr("RemoveAll", shown, err)
	}
	delete(p.children, last)
	return nil
}

func renameAt(base *node, baseAbs, oldname, newname string) error {
	fail := func(e error) error { return &LinkError{Op: "rename", Old: oldname, New: newname, Err: e} }
	op, err := splitAt(baseAbs, oldname)
	if err != nil {
		return fail(err)
	}
	np, nerr := splitAt(baseAbs, newname)
	target := newname
	if nerr == nil {
		target = path.Join(np...)
	}
	dec := before(&Op{Kind: "rename", Path: path.Join(baseAbs, target)})
	if dec.Err != nil {
		return fail(dec.Err)
	}
	d.mu.Lock()
	defer d.mu.Unlock()
	if len(op) == 0 {
		return fail(syscall.EBUSY)
	}
	// the kernel resolves the source first
	pp, ol, err := parentOf(base, op)
	if err != nil {
		return fail(err)
	}
	src, ok := pp.children[ol]
	if !ok {
		return fail(syscall.ENOENT)
	}
	if nerr != nil {
		return fail(nerr)
	}
	if len(np) == 0 {
		return fail(syscall.EBUSY)
	}
	if src.dir && len(np) > len(op) && path.Join(np[:len(op)]...) == path.Join(op...) {
		return fail(syscall.EINVAL) // a directory cannot be moved into itself
	}
	dp, nl, err := parentOf(base, np)
	if err != nil {
		return fail(err)
	}
	if dst, ok := dp.children[nl]; ok {
		switch {
		case dst.dir:
			return fail(syscall.EEXIST) // package os refuses to rename onto an existing directory (even itself)
		case dst == src:
			return nil
		case src.dir:
			return fail(syscall.ENOTDIR)
		}
	}
	delete(pp.children, ol)
	dp.children[nl] = src
	now := time.Now()
	pp.mtime, dp.mtime = now, now
	return nil
}

func statAt(base *node, baseAbs, name, shown string) (FileInfo, error) {
	parts, err := splitAt(baseAbs, name)
	if err != nil {
		return nil, perr("stat", shown, err)
	}
	dec := before(&Op{Kind: "stat", Path: path.Join(baseAbs, path.Join(parts...))})
	if dec.Err != nil {
		return nil, perr("stat", shown, dec.Err)
	}
	d.mu.Lock()
	defer d.mu.Unlock()
	n, err := walk(base, parts)
	if err != nil {
		return nil, perr("stat", shown, err)
	}
	nm := "/"
	if len(parts) > 0 {
		nm = parts[len(parts)-1]
	} else if baseAbs != "" {
		nm = path.Base(baseAbs)
	}
	return infoOf(nm, n), nil
}

func chtimesAt(base *node, baseAbs, name, shown string, mtime time.Time) error {
	parts, err := splitAt(baseAbs, name)
	if err != nil {
		return perr("chtimes", shown, err)
	}
	dec := before(&Op{Kind: "chtimes", Path: path.Join(baseAbs, path.Join(parts...))})
	if dec.Err != nil {
		return perr("chtimes", shown, dec.Err)
	}
	d.mu.Lock()
	defer d.mu.Unlock()
	n, err := walk(base, parts)
	if err != nil {
		return perr("chtimes", shown, err)
	}
	if !mtime.IsZero() {
		n.mtime = mtime
	}
	return nil
}

func readFileVia(open func() (*File, error)) ([]byte, error) {
	f, err := open()
	if err != nil {
		return nil, err
	}
	defer f.Close()
	return io.ReadAll(f)
}

func writeFileVia(open func() (*File, error), data []byte) error {
	f, err := open()
	if err != nil {
		return err
	}
	_, err = f.Write(data)
	if err1 := f.Close(); err1 != nil && err == nil {
		err = err1
	}
	return err
}

// ---- package level functions ----

func Open(name string) (*File, error)   { return OpenFile(name, O_RDONLY, 0) }
func Create(name string) (*File, error) { return OpenFile(name, O_RDWR|O_CREATE|O_TRUNC, 0o666) }
func OpenFile(name string, flag int, perm FileMode) (*File, error) {
	return openAt(d.root, "/", name, name, flag, perm)
}
func Mkdir(name string, perm FileMode) error    { return mkdirAt(d.root, "/", name, name, perm) }
func MkdirAll(name string, perm FileMode) error { return mkdirAllAt(d.root, "/", name, name, perm) }
func Remove(name string) error                  { return removeAt(d.root, "/", name, name) }
func RemoveAll(name string) error               { return removeAllAt(d.root, "/", name, name) }
func Rename(oldpath, newpath string) error      { return renameAt(d.root, "/", oldpath, newpath) }
func Stat(name string) (FileInfo, error)        { return statAt(d.root, "/", name, name) }
func Lstat(name string) (FileInfo, error)       { return statAt(d.root, "/", name, name) }
func Chtimes(name string, atime, mtime time.Time) error {
	return chtimesAt(d.root, "/", name, name, mtime)
}
func Chmod(name string, mode FileMode) error { _, err := Stat(name); return err }
func Chown(name string, uid, gid int) error  { _, err := Stat(name); return err }
func Truncate(name string, size int64) error {
	f, err := OpenFile(name, O_WRONLY, 0)
	if err != nil {
		return err
	}
	defer f.Close()
	return f.Truncate(size)
}
func ReadFile(name string) ([]byte, error) {
	return readFileVia(func() (*File, error) { return Open(name) })
}
func WriteFile(name string, data []byte, perm FileMode) error {
	return writeFileVia(func() (*File, error) { return OpenFile(name, O_WRONLY|O_CREATE|O_TRUNC, perm) }, data)
}
func ReadDir(name string) ([]DirEntry, error) {
	f, err := Open(name)
	if err != nil {
		return nil, err
	}
	defer f.Close()
	return f.ReadDir(-1)
}

func nextTmp() string {
	d.mu.Lock()
	defer d.mu.Unlock()
	d.tmp++
	return strconv.Itoa(1000000 + d.tmp)
}

func tmpName(dir, pattern string) string {
	if dir == "" {
		dir = TempDir()
	}
	prefix, suffix := pattern, ""
	if i := strings.LastIndexByte(pattern, '*'); i >= 0 {
		prefix, suffix = pattern[:i], pattern[i+1:]
	}
	return path.Join(dir, prefix+nextTmp()+suffix)
}

func CreateTemp(dir, pattern string) (*File, error) {
	for i := 0; i < 100; i++ {
		f, err := OpenFile(tmpName(dir, pattern), O_RDWR|O_CREATE|O_EXCL, 0o600)
		if IsExist(err) {
			continue
		}
		return f, err
	}
	return nil, perr("createtemp", dir, ErrExist)
}

func MkdirTemp(dir, pattern string) (string, error) {
	for i := 0; i < 100; i++ {
		name := tmpName(dir, pattern)
		err := Mkdir(name, 0o700)
		if IsExist(err) {
			continue
		}
		return name, err
	}
	return "", perr("mkdirtemp", dir, ErrExist)
}

// ---- Root ----

type Root struct {
	n      *node
	name   string
	abs    string
	closed bool
}

func OpenRoot(name string) (*Root, error) {
	parts, err := splitAbs(name)
	if err != nil {
		return nil, perr("open", name, err)
	}
	abs := "/" + path.Join(parts...)
	dec := before(&Op{Kind: "open", Path: abs})
	if dec.Err != nil {
		return nil, perr("open", name, dec.Err)
	}
	d.mu.Lock()
	defer d.mu.Unlock()
	n, err := walk(d.root, parts)
	if err != nil {
		return nil, perr("open", name, err)
	}
	if !n.dir {
		return nil, perr("open", name, syscall.ENOTDIR)
	}
	return &Root{n: n, name: name, abs: abs}, nil
}

func (r *Root) Name() string { return r.name }
func (r *Root) Close() error { r.closed = true; return nil }

func (r *Root) local(op, name string) error {
	if r.closed {
		return perr(op, name, ErrClosed)
	}
	if name == "" {
		return perr(op, name, syscall.ENOENT)
	}
	if strings.HasPrefix(name, "/") {
		return perr(op, name, errEscapes)
	}
	depth := 0
	for _, s := range strings.Split(name, "/") {
		switch s {
		case "", ".":
		case "..":
			depth--
			if depth < 0 {
				return perr(op, name, errEscapes)
			}
		default:
			depth++
		}
	}
	return nil
}

func (r *Root) OpenFile(name string, flag int, perm FileMode) (*File, error) {
	if err := r.local("openat", name); err != nil {
		return nil, err
	}
	return openAt(r.n, r.abs, name, path.Join(r.name, name), flag, perm)
}
func (r *Root) Open(name string) (*File, error) { return r.OpenFile(name, O_RDONLY, 0) }
func (r *Root) Create(name string) (*File, error) {
	return r.OpenFile(name, O_RDWR|O_CREATE|O_TRUNC, 0o666)
}
func (r *Root) OpenRoot(name string) (*Root, error) {
	if err := r.local("openat", name); err != nil {
		return nil, err
	}
	return OpenRoot(path.Join(r.abs, name))
}
func (r *Root) Mkdir(name string, perm FileMode) error {
	if err := r.local("mkdirat", name); err != nil {
		return err
	}
	return mkdirAt(r.n, r.abs, name, name, perm)
}
func (r *Root) MkdirAll(name string, perm FileMode) error {
	if err := r.local("mkdirat", name); err != nil {
		return err
	}
	return mkdirAllAt(r.n, r.abs, name, name, perm)
}
func (r *Root) Remove(name string) error {
	if err := r.local("unlinkat", name); err != nil {
		return err
	}
	return removeAt(r.n, r.abs, name, name)
}
func (r *Root) RemoveAll(name string) error {
	if err := r.local("RemoveAll", name); err != nil {
		return err
	}
	return removeAllAt(r.n, r.abs, name, name)
}
func (r *Root) Rename(oldname, newname string) error {
	if err := r.local("renameat", oldname); err != nil {
		return err
	}
	if err := r.local("renameat", newname); err != nil {
		return err
	}
	return renameAt(r.n, r.abs, oldname, newname)
}
func (r *Root) Stat(name string) (FileInfo, error) {
	if err := r.local("statat", name); err != nil {
		return nil, err
	}
	return statAt(r.n, r.abs, name, name)
}
func (r *Root) Lstat(name string) (FileInfo, error) { return r.Stat(name) }
func (r *Root) Chtimes(name string, atime, mtime time.Time) error {
	if err := r.local("chtimesat", name); err != nil {
		return err
	}
	return chtimesAt(r.n, r.abs, name, name, mtime)
}
func (r *Root) Chmod(name string, mode FileMode) error { _, err := r.Stat(name); return err }
func (r *Root) Chown(name string, uid, gid int) error  { _, err := r.Stat(name); return err }
func (r *Root) Lchown(name string, uid, gid int) error { _, err := r.Stat(name); return err }
func (r *Root) ReadFile(name string) ([]byte, error) {
	return readFileVia(func() (*File, error) { return r.Open(name) })
}
func (r *Root) WriteFile(name string, data []byte, perm FileMode) error {
	return writeFileVia(func() (*File, error) { return r.OpenFile(name, O_WRONLY|O_CREATE|O_TRUNC, perm) }, data)
}
func (r *Root) Link(oldname, newname string) error {
	return &LinkError{Op: "link", Old: oldname, New: newname, Err: syscall.ENOTSUP}
}
func (r *Root) Symlink(oldname, newname string) error {
	return &LinkError{Op: "symlink", Old: oldname, New: newname, Err: syscall.ENOTSUP}
}
func (r *Root) Readlink(name string) (string, error) {
	return "", perr("readlink", name, syscall.EINVAL)
}
func (r *Root) FS() fs.FS { return rootFS{r} }

type rootFS struct{ r *Root }

func (f rootFS) Open(name string) (fs.File, error) {
	if !fs.ValidPath(name) {
		return nil, perr("open", name, ErrInvalid)
	}
	return f.r.Open(name)
}
func (f rootFS) ReadDir(name string) ([]fs.DirEntry, error) {
	fl, err := f.r.Open(name)
	if err != nil {
		return nil, err
	}
	defer fl.Close()
	return fl.ReadDir(-1)
}
func (f rootFS) Stat(name string) (fs.FileInfo, error) { return f.r.Stat(name) }
func (f rootFS) ReadFile(name string) ([]byte, error)  { return f.r.ReadFile(name) }

func DirFS(dir string) fs.FS {
	r, err := OpenRoot(dir)
	if err != nil {
		return rootFS{&Root{n: newDir(), name: dir, abs: dir}}
	}
	return rootFS{r}
}
