package simos

import (
	"errors"
	"fmt"
	"io"
	"io/fs"
	"math/rand/v2"
	"os"
	"path/filepath"
	"sort"
	"strings"
	"syscall"
	"testing"
)

// errClass reduces an error to what callers can legitimately depend on.
func errClass(err error) string {
	switch {
	case err == nil:
		return "ok"
	case errors.Is(err, fs.ErrNotExist):
		return "notexist"
	case errors.Is(err, syscall.ENOTEMPTY):
		return "notempty"
	case errors.Is(err, fs.ErrExist):
		return "exist"
	case errors.Is(err, syscall.ENOTDIR):
		return "notdir"
	case errors.Is(err, syscall.EISDIR):
		return "isdir"
	case errors.Is(err, syscall.ENOTEMPTY):
		return "notempty"
	case errors.Is(err, syscall.ENAMETOOLONG):
		return "toolong"
	case errors.Is(err, syscall.EINVAL):
		return "inval"
	case err == io.EOF:
		return "eof"
	}
	return "other:" + err.Error()
}

// TestDifferential drives the simulated Root and the real os.Root (in a temporary directory) with the
// same random operation sequences and requires identical data and error classes (fault-free mode).
func TestDifferential(t *testing.T) {
	names := []string{"a", "b", "a/x", "a/y", "a/x/z", "b/c", strings.Repeat("n", 255), strings.Repeat("m", 256), "a/" + strings.Repeat("k", 255), "c.d", ".tmp-1", "="}
	for seed := uint64(1); seed <= 300; seed++ {
		rng := rand.New(rand.NewPCG(seed, 7))
		Reset(nil)
		dir := t.TempDir()
		realRoot, err := os.OpenRoot(dir)
		if err != nil {
			t.Fatal(err)
		}
		if err := MkdirAll("/base", 0o755); err != nil {
			t.Fatal(err)
		}
		simRoot, err := OpenRoot("/base")
		if err != nil {
			t.Fatal(err)
		}
		var trace []string
		for step := 0; step < 60; step++ {
			n1, n2 := names[rng.IntN(len(names))], names[rng.IntN(len(names))]
			data := []byte(fmt.Sprintf("data-%d-%d", seed, step))
			var rRes, sRes string
			op := rng.IntN(9)
			trace = append(trace, fmt.Sprintf("%d:%s:%s", op, clip(n1), clip(n2)))
			switch op {
			case 0: // create + write + close
				rf, re := realRoot.Create(n1)
				sf, se := simRoot.Create(n1)
				rRes, sRes = errClass(re), errClass(se)
				if re == nil {
					rf.Write(data)
					rf.Close()
				}
				if se == nil {
					sf.Write(data)
					sf.Close()
				}
			case 1: // read whole file
				rb, re := realRoot.ReadFile(n1)
				sb, se := simRoot.ReadFile(n1)
				rRes, sRes = errClass(re)+":"+string(rb), errClass(se)+":"+string(sb)
			case 2:
				rRes, sRes = errClass(realRoot.MkdirAll(n1, 0o755)), errClass(simRoot.MkdirAll(n1, 0o755))
			case 3:
				rRes, sRes = errClass(realRoot.Remove(n1)), errClass(simRoot.Remove(n1))
			case 4:
				re, se := realRoot.Rename(n1, n2), simRoot.Rename(n1, n2)
				rRes, sRes = errClass(re), errClass(se)
				if re != nil && se != nil {
					// which of several applicable errors a failing rename reports depends on the order in which
					// os.Root resolves the two paths; that both fail is what matters
					rRes, sRes = "fail", "fail"
				}
			case 5:
				_, re := realRoot.Stat(n1)
				_, se := simRoot.Stat(n1)
				rRes, sRes = errClass(re), errClass(se)
			case 6: // exclusive create
				rf, re := realRoot.OpenFile(n1, os.O_WRONLY|os.O_CREATE|os.O_EXCL, 0o644)
				sf, se := simRoot.OpenFile(n1, O_WRONLY|O_CREATE|O_EXCL, 0o644)
				rRes, sRes = errClass(re), errClass(se)
				if re == nil {
					rf.Write(data)
					rf.Close()
				}
				if se == nil {
					sf.Write(data)
					sf.Close()
				}
			case 7: // open handle survives rename-over (inode semantics)
				rf, re := realRoot.Open(n1)
				sf, se := simRoot.Open(n1)
				rRes, sRes = errClass(re), errClass(se)
				if re == nil && se == nil {
					re3, se3 := realRoot.Rename(n2, n1), simRoot.Rename(n2, n1)
					if re3 != nil && se3 != nil {
						re3, se3 = nil, nil
						rRes, sRes = rRes+"|fail", sRes+"|fail"
					}
					rRes += "|" + errClass(re3)
					sRes += "|" + errClass(se3)
					rb, re2 := io.ReadAll(rf)
					sb, se2 := io.ReadAll(sf)
					rRes += "|" + errClass(re2) + ":" + string(rb)
					sRes += "|" + errClass(se2) + ":" + string(sb)
				}
				if re == nil {
					rf.Close()
				}
				if se == nil {
					sf.Close()
				}
			case 8:
				rRes, sRes = errClass(realRoot.Mkdir(n1, 0o755)), errClass(simRoot.Mkdir(n1, 0o755))
			}
			if rRes != sRes {
				var rl []string
				filepath.WalkDir(dir, func(p string, d fs.DirEntry, err error) error {
					if err == nil && p != dir {
						rl = append(rl, strings.TrimPrefix(p, dir+"/")+fmt.Sprint(d.IsDir()))
					}
					return nil
				})
				var sl []string
				for p := range Snapshot() {
					sl = append(sl, p)
				}
				sort.Strings(sl)
				t.Logf("real tree: %v\nsim files: %v", rl, sl)
				t.Fatalf("seed %d step %d (%s, %s): real=%q sim=%q\ntrace: %v", seed, step, clip(n1), clip(n2), rRes, sRes, trace)
			}
		}
		// final tree listing must agree
		var rl, sl []string
		filepath.WalkDir(dir, func(p string, d fs.DirEntry, err error) error {
			if err == nil && p != dir {
				rl = append(rl, strings.TrimPrefix(p, dir+"/")+fmt.Sprint(d.IsDir()))
			}
			return nil
		})
		for p := range Snapshot() {
			_ = p
		}
		var walk func(string)
		walk = func(p string) {
			es, _ := ReadDir(p)
			for _, e := range es {
				full := p + "/" + e.Name()
				sl = append(sl, strings.TrimPrefix(full, "/base/")+fmt.Sprint(e.IsDir()))
				if e.IsDir() {
					walk(full)
				}
			}
		}
		walk("/base")
		sort.Strings(rl)
		sort.Strings(sl)
		if strings.Join(rl, ",") != strings.Join(sl, ",") {
			t.Fatalf("seed %d: trees differ\nreal=%v\nsim =%v", seed, rl, sl)
		}
		realRoot.Close()
	}
}

func clip(s string) string {
	if len(s) > 20 {
		return fmt.Sprintf("%s…(%d)", s[:20], len(s))
	}
	return s
}

// TestDifferentialLongPath: names resolved from a Root are not subject to PATH_MAX, paths passed as one
// string are - in the real file system and in the model alike.
func TestDifferentialLongPath(t *testing.T) {
	Reset(nil)
	dir := t.TempDir()
	realRoot, err := os.OpenRoot(dir)
	if err != nil {
		t.Fatal(err)
	}
	if err := MkdirAll("/base", 0o755); err != nil {
		t.Fatal(err)
	}
	simRoot, err := OpenRoot("/base")
	if err != nil {
		t.Fatal(err)
	}
	parts := make([]string, 100)
	for i := range parts {
		parts[i] = strings.Repeat("d", 48)
	}
	deep := strings.Join(parts, "/")
	check := func(what string, re, se error) {
		t.Helper()
		if errClass(re) != errClass(se) {
			t.Fatalf("%s: real %v, model %v", what, re, se)
		}
	}
	check("root mkdirall", realRoot.MkdirAll(deep, 0o755), simRoot.MkdirAll(deep, 0o755))
	rf, re := realRoot.Create(deep + "/f")
	sf, se := simRoot.Create(deep + "/f")
	check("root create", re, se)
	if re == nil {
		rf.Close()
	}
	if se == nil {
		sf.Close()
	}
	_, re = realRoot.Stat(deep + "/f")
	_, se = simRoot.Stat(deep + "/f")
	check("root stat", re, se)
	check("root rename", realRoot.Rename(deep+"/f", deep+"/g"), simRoot.Rename(deep+"/f", deep+"/g"))
	_, re = os.Lstat(filepath.Join(dir, deep, "g"))
	_, se = Lstat("/base/" + deep + "/g")
	check("absolute lstat", re, se)
	if errClass(re) != "toolong" {
		t.Fatalf("expected ENAMETOOLONG from the real file system for a %d-byte path, got %v", len(filepath.Join(dir, deep, "g")), re)
	}
	_, re = os.ReadDir(filepath.Join(dir, deep))
	_, se = ReadDir("/base/" + deep)
	check("absolute readdir", re, se)
	check("root remove", realRoot.Remove(deep+"/g"), simRoot.Remove(deep+"/g"))
}
