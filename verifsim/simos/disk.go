// Package simos is a drop-in mirror of the part of package os that a file
// cache can reasonably use, implemented over a simulated in-memory disk.
//
// It is compiled into a scratch copy of the repository in which the
// non-test files of store/fscache import this package instead of "os".
// Every operation that would be a system call on a real kernel first calls
// the installed Hook, which is where the simulator parks the calling
// goroutine (yield point) and injects faults.
package simos

import (
	"errors"
	"io/fs"
	"path"
	"sort"
	"strings"
	"sync"
	"syscall"
	"time"
)

// Op describes one simulated system call, handed to the Hook before it takes
// effect.
type Op struct {
	Kind string // open create read write sync close rename remove mkdir stat chtimes readdir truncate
	Path string // absolute simulated path (of the file the handle was opened on for handle ops)
	N    int    // bytes requested (read / write)
	Off  int64  // file offset (read / write)
	Data []byte // bytes about to be written (write only; do not retain)
}

// Decision is the Hook's answer.
type Decision struct {
	Err error // fail the call with this errno (after N bytes for a write)
	N   int   // write: bytes applied before Err (only with Err != nil); read: if >0 and smaller than requested, short read
}

// Hook is called, with no simos lock held, before every simulated system
// call. It may block (that is how the scheduler interleaves goroutines) and
// may terminate the calling goroutine (crash simulation).
type Hook interface {
	DiskOp(op *Op) Decision
	// Wrote is called after bytes have been applied to a file (n > 0), with
	// the whole file content after the write; used by plaintext monitors.
	Wrote(path string, content []byte)
}

type node struct {
	dir      bool
	children map[string]*node
	data     []byte
	mtime    time.Time
	mode     fs.FileMode
}

type disk struct {
	mu   sync.Mutex
	root *node
	hook Hook
	tmp  int
	chunks int
}

var d = &disk{root: newDir()}

func newDir() *node {
	return &node{dir: true, children: map[string]*node{}, mode: fs.ModeDir | 0o755, mtime: time.Now()}
}

// Reset discards the whole simulated disk and installs h (nil: no yields, no faults).
func Reset(h Hook) {
	d.mu.Lock()
	defer d.mu.Unlock()
	d.root = newDir()
	d.hook = h
	d.tmp = 0
	d.chunks = 0
}

// SetHook swaps the hook and keeps the disk contents.
func SetHook(h Hook) {
	d.mu.Lock()
	defer d.mu.Unlock()
	d.hook = h
}

func before(op *Op) Decision {
	d.mu.Lock()
	h := d.hook
	d.mu.Unlock()
	if h == nil {
		return Decision{}
	}
	return h.DiskOp(op)
}

func wrote(p string, content []byte) {
	d.mu.Lock()
	h := d.hook
	d.mu.Unlock()
	if h != nil {
		h.Wrote(p, content)
	}
}

const (
	nameMax = 255
	pathMax = 4096
)

func perr(op, p string, err error) error { return &fs.PathError{Op: op, Path: p, Err: err} }

// splitAt: a name resolved from a directory handle (os.Root walks it component by component with openat)
// is not subject to PATH_MAX, only its components to NAME_MAX; a path handed to a system call as one
// string is (checked against the real thing: 100 nested 48-character directories under an os.Root work,
// filepath.WalkDir over the same tree fails with ENAMETOOLONG at depth 85).
func splitAt(baseAbs, p string) ([]string, error) {
	if baseAbs == "/" {
		return splitAbs(p)
	}
	return splitPath(p, false)
}

// splitAbs cleans an absolute (or relative-to-/) path into components.
func splitAbs(p string) ([]string, error) { return splitPath(p, true) }

func splitPath(p string, limited bool) ([]string, error) {
	if p == "" {
		return nil, syscall.ENOENT
	}
	if limited && len(p) >= pathMax {
		return nil, syscall.ENAMETOOLONG
	}
	if strings.IndexByte(p, 0) >= 0 {
		return nil, syscall.EINVAL
	}
	c := path.Clean("/" + p)
	if c == "/" {
		return nil, nil
	}
	parts := strings.Split(c[1:], "/")
	for _, s := range parts {
		if len(s) > nameMax {
			return nil, syscall.ENAMETOOLONG
		}
	}
	return parts, nil
}

// walk resolves parts from n. Caller holds d.mu.
func walk(n *node, parts []string) (*node, error) {
	for _, s := range parts {
		if !n.dir {
			return nil, syscall.ENOTDIR
		}
		c, ok := n.children[s]
		if !ok {
			return nil, syscall.ENOENT
		}
		n = c
	}
	return n, nil
}

// parentOf resolves all but the last component.
func parentOf(n *node, parts []string) (*node, string, error) {
	if len(parts) == 0 {
		return nil, "", syscall.EINVAL
	}
	p, err := walk(n, parts[:len(parts)-1])
	if err != nil {
		return nil, "", err
	}
	if !p.dir {
		return nil, "", syscall.ENOTDIR
	}
	return p, parts[len(parts)-1], nil
}

type fileInfo struct {
	name  string
	size  int64
	mode  fs.FileMode
	mtime time.Time
	dir   bool
}

func (fi fileInfo) Name() string       { return fi.name }
func (fi fileInfo) Size() int64        { return fi.size }
func (fi fileInfo) Mode() fs.FileMode  { return fi.mode }
func (fi fileInfo) ModTime() time.Time { return fi.mtime }
func (fi fileInfo) IsDir() bool        { return fi.dir }
func (fi fileInfo) Sys() any           { return nil }

func (fi fileInfo) Type() fs.FileMode          { return fi.mode.Type() }
func (fi fileInfo) Info() (fs.FileInfo, error) { return fi, nil }

func infoOf(name string, n *node) fileInfo {
	return fileInfo{name: name, size: int64(len(n.data)), mode: n.mode, mtime: n.mtime, dir: n.dir}
}

func sortedNames(n *node) []string {
	names := make([]string, 0, len(n.children))
	for k := range n.children {
		names = append(names, k)
	}
	sort.Strings(names)
	return names
}

// ---- inspection helpers for the harness (no hook, no yield) ----

// Snapshot returns path -> content for every regular file on the disk.
func Snapshot() map[string][]byte {
	d.mu.Lock()
	defer d.mu.Unlock()
	out := map[string][]byte{}
	var rec func(p string, n *node)
	rec = func(p string, n *node) {
		if !n.dir {
			out[p] = append([]byte(nil), n.data...)
			return
		}
		for _, k := range sortedNames(n) {
			rec(p+"/"+k, n.children[k])
		}
	}
	rec("", d.root)
	return out
}

// Corrupt replaces the content of the regular file at p by f(content),
// bypassing hooks (at-rest corruption).
func Corrupt(p string, f func([]byte) []byte) error {
	d.mu.Lock()
	defer d.mu.Unlock()
	parts, err := splitAbs(p)
	if err != nil {
		return err
	}
	n, err := walk(d.root, parts)
	if err != nil {
		return err
	}
	if n.dir {
		return syscall.EISDIR
	}
	n.data = f(append([]byte(nil), n.data...))
	return nil
}

var errEscapes = errors.New("path escapes from parent")

// WriteChunk > 0 splits every Write into system calls of at most that many
// bytes, for at most ChunkBudget split calls per Reset (keeps runs short).
var (
	WriteChunk  int
	ChunkBudget = 48
)

func takeChunkBudget() bool {
	d.mu.Lock()
	defer d.mu.Unlock()
	if d.chunks >= ChunkBudget {
		return false
	}
	d.chunks++
	return true
}
