// Package simfilepath mirrors path/filepath; everything is forwarded except the
// functions that touch the file system, which walk the simulated disk of
// package simos instead.
package simfilepath

import (
	"io/fs"
	"path/filepath"
	"sort"

	"github.com/bartventer/httpcache/verifsim/simos"
)

const (
	Separator     = filepath.Separator
	ListSeparator = filepath.ListSeparator
)

var (
	ErrBadPattern = filepath.ErrBadPattern
	SkipAll       = fs.SkipAll
	SkipDir       = fs.SkipDir
)

type WalkFunc = filepath.WalkFunc

func Abs(path string) (string, error) {
	if filepath.IsAbs(path) {
		return filepath.Clean(path), nil
	}
	return filepath.Join("/", path), nil
}
func Base(path string) string                    { return filepath.Base(path) }
func Clean(path string) string                   { return filepath.Clean(path) }
func Dir(path string) string                     { return filepath.Dir(path) }
func EvalSymlinks(path string) (string, error)   { return filepath.Clean(path), nil }
func Ext(path string) string                     { return filepath.Ext(path) }
func FromSlash(path string) string               { return filepath.FromSlash(path) }
func HasPrefix(p, prefix string) bool            { return filepath.HasPrefix(p, prefix) } //nolint
func IsAbs(path string) bool                     { return filepath.IsAbs(path) }
func IsLocal(path string) bool                   { return filepath.IsLocal(path) }
func Join(elem ...string) string                 { return filepath.Join(elem...) }
func Localize(path string) (string, error)       { return filepath.Localize(path) }
func Match(pattern, name string) (bool, error)   { return filepath.Match(pattern, name) }
func Rel(basePath, targPath string) (string, error) { return filepath.Rel(basePath, targPath) }
func Split(path string) (dir, file string)       { return filepath.Split(path) }
func SplitList(path string) []string             { return filepath.SplitList(path) }
func ToSlash(path string) string                 { return filepath.ToSlash(path) }
func VolumeName(path string) string              { return filepath.VolumeName(path) }

// Glob supports only patterns whose directory part is literal.
func Glob(pattern string) ([]string, error) {
	if _, err := filepath.Match(pattern, ""); err != nil {
		return nil, err
	}
	dir, file := filepath.Split(pattern)
	if dir == "" {
		dir = "."
	}
	es, err := simos.ReadDir(filepath.Clean(dir))
	if err != nil {
		return nil, nil
	}
	var out []string
	for _, e := range es {
		if ok, _ := filepath.Match(file, e.Name()); ok {
			out = append(out, filepath.Join(dir, e.Name()))
		}
	}
	sort.Strings(out)
	return out, nil
}

func walkDir(path string, d fs.DirEntry, fn fs.WalkDirFunc) error {
	if err := fn(path, d, nil); err != nil || !d.IsDir() {
		if err == fs.SkipDir && d.IsDir() {
			err = nil
		}
		return err
	}
	entries, err := simos.ReadDir(path)
	if err != nil {
		err = fn(path, d, err)
		if err != nil {
			if err == fs.SkipDir && d.IsDir() {
				err = nil
			}
			return err
		}
	}
	for _, e := range entries {
		if err := walkDir(filepath.Join(path, e.Name()), e, fn); err != nil {
			if err == fs.SkipDir {
				break
			}
			return err
		}
	}
	return nil
}

// WalkDir mirrors filepath.WalkDir over the simulated disk (lexical order).
func WalkDir(root string, fn fs.WalkDirFunc) error {
	info, err := simos.Lstat(root)
	if err != nil {
		err = fn(root, nil, err)
	} else {
		err = walkDir(root, fs.FileInfoToDirEntry(info), fn)
	}
	if err == fs.SkipDir || err == fs.SkipAll {
		return nil
	}
	return err
}

// Walk mirrors filepath.Walk over the simulated disk.
func Walk(root string, fn WalkFunc) error {
	return WalkDir(root, func(path string, d fs.DirEntry, err error) error {
		if err != nil {
			return fn(path, nil, err)
		}
		info, ierr := d.Info()
		return fn(path, info, ierr)
	})
}
