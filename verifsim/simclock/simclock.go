// Package simclock is the wall clock the library reads in simulation (its internal Clock, rewritten in the
// scratch copy): the bubble's clock plus an offset that a scenario can step forwards or backwards, as an
// administrator or an NTP correction does to a real wall clock. Times carry no monotonic reading, so that
// differences are taken on the wall clock - which is what happens to every time the library has stored and
// read back.
package simclock

import (
	"sync/atomic"
	"time"
)

var offset atomic.Int64

func Now() time.Time                  { return time.Now().Round(0).Add(time.Duration(offset.Load())) }
func Since(t time.Time) time.Duration { return Now().Sub(t) }

// Step moves the wall clock by d (negative: back).
func Step(d time.Duration) { offset.Add(int64(d)) }

// Reset puts the wall clock back on the bubble's clock.
func Reset() { offset.Store(0) }

// Offset returns the sum of all steps so far.
func Offset() time.Duration { return time.Duration(offset.Load()) }
