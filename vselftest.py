"""Self tests of the machinery: determinism of the simulator, fidelity of the simulated disk."""
import json, os, subprocess, sys, time


def main(what, Scratch, merge):
    if what == "disk":
        return disk(Scratch)
    return determinism(Scratch)


def disk(Scratch):
    sc = Scratch()
    try:
        sc.build()
        env = dict(os.environ, GOFLAGS="-mod=mod", GOPROXY="off", GOSUMDB="off", GOTOOLCHAIN="local")
        r = subprocess.run(["go1.26.8", "test", "-count=1", "-run", "TestDifferential", "./verifsim/simos/"], cwd=os.path.join(sc.dir, "src"), env=env)
        print("disk model differential test:", "ok" if r.returncode == 0 else "FAILED")
        sys.exit(0 if r.returncode == 0 else 2)
    finally:
        sc.cleanup()


def determinism(Scratch):
    """Every (profile, seed) is executed in many processes at GOMAXPROCS 1, 4 and 16 (and once under -race);
    all event-log digests of one pair must be identical."""
    profiles = ["fresh", "valid", "vary", "fidelity", "store", "inval", "writeback", "hits", "faults", "swr", "swrvary", "swrreuse", "swrrace", "swrflood", "varyflip", "wbfault", "oicstep", "invalswr", "conc", "oic", "sie", "placement", "crashy", "tamper", "map", "atomic", "crypt", "recover"]
    n_seeds = int(os.environ.get("VSELF_SEEDS", "40"))
    procs = int(os.environ.get("VSELF_PROCS", "30"))
    sc = Scratch()
    scr = Scratch(race=True)
    ok = True
    try:
        sc.build()
        scr.build()
        handles = []
        for p in range(procs):
            gmp = [1, 4, 16][p % 3]
            job = {"mode": "digests", "profiles": profiles, "seed_base": 424242, "start": 0, "count": n_seeds}
            use = scr if p == procs - 1 else sc
            handles.append(use.run_job(job, "d%d" % p, 1800, {"GOMAXPROCS": str(gmp)}))
        results = []
        for h in handles:
            (scr if h["name"] == "d%d" % (procs - 1) else sc).wait(h)
            if not h["out"]:
                print("process %s failed rc=%s" % (h["name"], h["rc"]))
                print(open(h["log"], errors="replace").read()[-2000:])
                ok = False
                continue
            results.append(h["out"])
        keys = sorted(results[0]) if results else []
        bad = 0
        for k in keys:
            vals = {r.get(k) for r in results}
            if len(vals) != 1:
                bad += 1
                if bad <= 10:
                    print("DIVERGENCE", k, vals)
        print("determinism: %d (profile, seed) pairs x %d processes (GOMAXPROCS 1/4/16, last one -race): %d divergent" % (len(keys), len(results), bad))
        amb = sum(1 for k in keys if " amb=0 " not in results[0][k])
        print("ambiguous-identity runs: %d" % amb)
        if bad:
            ok = False
    finally:
        sc.cleanup()
        scr.cleanup()
    sys.exit(0 if ok else 2)
