#!/bin/bash
# usage: one.sh <profile> <seed> [raw]   -- run one scenario verbosely in /tmp/vdev
st=1; [ "$3" = raw ] && st=-1
echo "{\"mode\":\"one\",\"prop\":\"X\",\"profiles\":[\"$1\"],\"seed_base\":$2,\"start\":0,\"stride\":$st}" > /tmp/jobone.json
cd /tmp/vdev && VSIM_JOB=/tmp/jobone.json ./sim.test -test.run '^TestWorker$' -test.timeout 0
