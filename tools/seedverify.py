#!/usr/bin/env python3
"""Confirm a sub-agent's seeded change in its scratch worktree: demo passes on the clean tree, fails with the patch,
existing tests keep the baseline with the patch. usage: seedverify.py <worktree> <A|B>"""
import subprocess, sys, os, re, json, shutil
wt, which = sys.argv[1], sys.argv[2]
sd = os.path.join(wt, "_seeded", which)
env = dict(os.environ, GOFLAGS="-mod=mod", GOPROXY="off", GOSUMDB="off", GOTOOLCHAIN="local")
def sh(cmd, cwd=wt):
    return subprocess.run(cmd, shell=True, cwd=cwd, env=env, capture_output=True, text=True)
demos = [f for f in os.listdir(sd) if f.endswith(".go")]
assert demos, "no demo"
src = open(os.path.join(sd, demos[0])).read()
pkg = re.search(r"^package (\w+)", src, re.M).group(1)
tests = re.findall(r"^func (Test\w+)\(", src, re.M)
if pkg in ("httpcache", "httpcache_test"):
    dest, target = os.path.join(wt, "zz_seed_demo_test.go"), "."
elif pkg in ("internal", "internal_test"):
    dest, target = os.path.join(wt, "internal", "zz_seed_demo_test.go"), "./internal/"
elif pkg in ("fscache", "fscache_test"):
    dest, target = os.path.join(wt, "store/fscache", "zz_seed_demo_test.go"), "./store/fscache/"
elif pkg in ("memcache", "memcache_test"):
    dest, target = os.path.join(wt, "store/memcache", "zz_seed_demo_test.go"), "./store/memcache/"
elif pkg == "main":
    os.makedirs(os.path.join(wt, "zzseeddemo"), exist_ok=True)
    dest, target = os.path.join(wt, "zzseeddemo", "main.go"), "./zzseeddemo/"
else:
    os.makedirs(os.path.join(wt, "zzseeddemo"), exist_ok=True)
    dest, target = os.path.join(wt, "zzseeddemo", "zz_seed_demo_test.go"), "./zzseeddemo/"
def cleanup():
    sh("git checkout -- . ")
    for p in (dest, os.path.join(wt, "zzseeddemo")):
        if os.path.isdir(p): shutil.rmtree(p)
        elif os.path.exists(p): os.remove(p)
def rundemo():
    os.makedirs(os.path.dirname(dest), exist_ok=True)
    shutil.copy(os.path.join(sd, demos[0]), dest)
    if pkg == "main":
        r = sh("go1.26.8 run " + target)
    else:
        r = sh("go1.26.8 test -count=1 -run '^(%s)$' %s" % ("|".join(tests), target))
    return r.returncode, (r.stdout + r.stderr)[-1500:]
cleanup()
rc_clean, out_clean = rundemo()
cleanup()
ap = sh("git apply " + os.path.join(sd, "patch.diff"))
if ap.returncode != 0:
    print(json.dumps({"ok": False, "why": "patch does not apply: " + ap.stderr[:300]})); sys.exit(1)
build = sh("go1.26.8 build ./...")
rc_mut, out_mut = rundemo()
os.remove(dest) if os.path.isfile(dest) else None
if os.path.isdir(os.path.join(wt, "zzseeddemo")): shutil.rmtree(os.path.join(wt, "zzseeddemo"))
base = subprocess.run(["/verif/tools/baseline_check.py", wt], capture_output=True, text=True)
cleanup()
res = {"ok": rc_clean == 0 and rc_mut != 0 and build.returncode == 0 and base.returncode == 0,
       "demo_clean_rc": rc_clean, "demo_mutant_rc": rc_mut, "build_rc": build.returncode, "baseline": base.stdout.strip().splitlines()[:1],
       "pkg": pkg, "tests": tests}
if not res["ok"]:
    res["out_clean"] = out_clean[-600:]; res["out_mut"] = out_mut[-600:]
print(json.dumps(res))
