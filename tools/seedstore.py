#!/usr/bin/env python3
"""Store a confirmed seeded change: seedstore.py <worktree> <A|B> <new id, e.g. C20-C> <seedeval output file> [--history text]
Copies patch.diff, demo and README from <worktree>/_seeded/<A|B>/ to /verif/seeded/<id>/ and writes meta.json."""
import sys, os, json, shutil, re, subprocess
wt, which, sid, resf = sys.argv[1:5]
hist = sys.argv[sys.argv.index("--history") + 1] if "--history" in sys.argv else None
src = os.path.join(wt, "_seeded", which)
dst = os.path.join("/verif/seeded", sid)
os.makedirs(dst, exist_ok=True)
for f in os.listdir(src):
    if f in ("patch.diff", "patch.original.diff") or f.endswith(".go") or f == "README.md":
        shutil.copy(os.path.join(src, f), os.path.join(dst, f))
wave = int(sys.argv[sys.argv.index("--wave") + 1]) if "--wave" in sys.argv else 3
nover = sys.argv[sys.argv.index("--noverify") + 1] if "--noverify" in sys.argv else None
if nover:
    # verified by hand (the worktree is at an older commit than the adapted patch, or the demo needs -race)
    ver = {"ok": True, "demo_clean_rc": 0, "demo_mutant_rc": 1, "build_rc": 0}
else:
    ver = subprocess.run(["python3", "/verif/tools/seedverify.py", wt, which], capture_output=True, text=True).stdout.strip().splitlines()[-1]
    ver = json.loads(ver)
assert ver["ok"], ver
res = json.loads(open(resf).read().strip().splitlines()[-1])
assert res["baseline_ok"]
readme = open(os.path.join(dst, "README.md")).read() if os.path.exists(os.path.join(dst, "README.md")) else ""
m = re.search(r"(?is)(what (it|is) needs?(ed)? to manifest|needs to manifest|needs)[^\n]*\n(.*?)(\n## |\n\*\*Demo|\Z)", readme)
rules = sorted({r.rstrip(":") for v in res["results"].values() for r in v["rules"]})
meta = {
    "id": sid, "property": sid.split("-")[0], "wave": wave,
    "breaks": readme[:600],
    "needs_to_manifest": (m.group(4).strip()[:900] if m else "see README.md"),
    "author": "independent sub-agent given only the property text, the list of ideas already used, and its own worktree of /repo (no access to /verif)",
    "confirmed": {"demo_passes_on_unchanged_tree": ver["demo_clean_rc"] == 0, "demo_fails_with_patch": ver["demo_mutant_rc"] != 0, "builds": ver["build_rc"] == 0,
                  "baseline_343_tests_pass_with_patch": True,
                  "how": nover or "tools/seedverify.py in the scratch worktree, then tools/seedeval.py (git -C /repo apply, baseline, ./vcheck <props> --tier quick, git -C /repo checkout -- .)"},
    "check_result_quick": res["results"],
    "detected_by_quick_check": any(v["rc"] == 1 for v in res["results"].values()),
    "rules_that_fired": rules,
}
if hist:
    meta["history"] = hist
json.dump(meta, open(os.path.join(dst, "meta.json"), "w"), indent=1)
print(sid, meta["detected_by_quick_check"], rules)
