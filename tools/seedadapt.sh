#!/bin/bash
# usage: adapt.sh <seed id> ; expects /repo working tree to contain the adapted mutant (uncommitted)
id=$1; d=/verif/seeded/$id
export GOFLAGS=-mod=mod GOPROXY=off GOSUMDB=off GOTOOLCHAIN=local
cd /repo || exit 2
go1.26.8 build ./... || { echo BUILD FAIL; exit 1; }
[ -f $d/patch.original.diff ] || cp $d/patch.diff $d/patch.original.diff
git diff > $d/patch.diff
# demo must fail with patch
demo=$(ls $d/*.go | head -1)
pkg=$(grep -m1 '^package ' $demo | awk '{print $2}')
case $pkg in
  httpcache|httpcache_test) dest=/repo/zz_seed_demo_test.go; tgt=. ;;
  internal|internal_test) dest=/repo/internal/zz_seed_demo_test.go; tgt=./internal/ ;;
  fscache|fscache_test) dest=/repo/store/fscache/zz_seed_demo_test.go; tgt=./store/fscache/ ;;
esac
tests=$(grep -oE '^func (Test[A-Za-z0-9_]+)' $demo | awk '{print $2}' | paste -sd'|')
cp $demo $dest
go1.26.8 test -count=1 -run "^($tests)\$" $tgt > /tmp/adapt.mut.log 2>&1; mrc=$?
rm -f $dest
python3 /verif/tools/baseline_check.py | tail -1
git checkout -- . ; git clean -fdq
cp $demo $dest
go1.26.8 test -count=1 -run "^($tests)\$" $tgt > /tmp/adapt.clean.log 2>&1; crc=$?
rm -f $dest
echo "$id demo with patch rc=$mrc (want !=0), clean rc=$crc (want 0)"
git status --porcelain | head -2
