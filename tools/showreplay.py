#!/usr/bin/env python3
import json,sys,glob
def show(path, maxlog=90):
    r=json.load(open(path)); s=r['scenario']
    print('#####',path,r['sig']); print(r['msg'][:700])
    print(json.dumps({k:v for k,v in s.items() if k not in('resources','clients','decisions','sclients','phase2')}))
    for i,res in enumerate(s.get('resources') or []):
        print(' res',i,res['host'],res['path'],res.get('query'),'lm_base',res.get('lm_base'))
        for p in res['plans']: print('    plan',json.dumps(p))
    for ci,c in enumerate(s.get('clients') or []):
        for o in c['ops']: print('   c%d op'%(ci+1),json.dumps(o))
    for ci,c in enumerate(s.get('sclients') or []):
        for o in c['ops']: print('   s%d op'%(ci+1),json.dumps(o))
    for ci,c in enumerate(s.get('phase2') or []):
        for o in c['ops']: print('   p2 %d op'%(ci+1),json.dumps(o))
    print('\n'.join((r.get('event_log') or [])[:maxlog]))
prop=sys.argv[1]; pat=sys.argv[2] if len(sys.argv)>2 else ''
import os
fs=sorted(glob.glob('/verif/replays/%s/*.json'%prop), key=os.path.getmtime)
seen=set()
for f in reversed(fs):
    sg=json.load(open(f))['sig']
    if pat in sg and sg not in seen:
        seen.add(sg); show(f, int(sys.argv[3]) if len(sys.argv)>3 else 90)
        if len(sys.argv)>2: break
