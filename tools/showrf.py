import json,sys
rf=json.load(open(sys.argv[1])); maxl=int(sys.argv[2]) if len(sys.argv)>2 else 200
print('#####',sys.argv[1],rf['sig']); print(rf['msg'][:600]); s=rf['scenario']
print({k:v for k,v in s.items() if k not in('resources','clients','clients2','decisions','store_faults','up_faults','disk_faults')})
for k in ('store_faults','up_faults','disk_faults'):
    if s.get(k): print(k, json.dumps(s[k]))
for i,r in enumerate(s.get('resources',[])):
    print('res',i,r['host'],r['path'][:40],r.get('query'))
    for p in r['plans']: print('    plan',json.dumps(p)[:500])
for key in ('clients','clients2'):
    for ci,c in enumerate(s.get(key) or []):
        for o in c['ops']: print('  ',key,ci+1,'op',json.dumps(o))
n=0
for l in rf.get('event_log',[]):
    if ' disk.' in l: continue
    print(l[:280]); n+=1
    if n>=maxl: break
