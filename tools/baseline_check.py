#!/usr/bin/env python3
"""Run the repository's own test suite (guard off: there is no guard) and compare with BASELINE.json's stable_pass list."""
import json, subprocess, os, sys
env = dict(os.environ, GOFLAGS="-mod=mod", GOPROXY="off", GOSUMDB="off", GOTOOLCHAIN="local")
repo = sys.argv[1] if len(sys.argv) > 1 else "/repo"
p = subprocess.run(["go1.26.8", "test", "-json", "-vet=off", "-count=1", "-timeout", "25m", "./..."], cwd=repo, env=env, capture_output=True, text=True)
res = {}
for ln in p.stdout.splitlines():
    try:
        ev = json.loads(ln)
    except Exception:
        continue
    if ev.get("Test") and ev.get("Action") in ("pass", "fail", "skip"):
        res[ev["Package"] + "::" + ev["Test"]] = ev["Action"]
base = json.load(open("/root/.vp/BASELINE.json"))["stable_pass"]
bad = [t for t in base if res.get(t) != "pass"]
print("baseline tests: %d, passing now: %d, not passing: %d" % (len(base), len(base) - len(bad), len(bad)))
for t in bad[:40]:
    print("  NOT PASSING:", t, res.get(t))
sys.exit(1 if bad else 0)
