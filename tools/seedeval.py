#!/usr/bin/env python3
"""Apply a seeded change to /repo, check that it builds and keeps the baseline, run the given checks, undo it.
usage: seedeval.py <patch.diff> <PROP>[,<PROP>...] [--tier quick|thorough] [--seeds 1,2] [--copy]
--copy: work on a throw-away copy of /repo's HEAD (several evaluations can then run side by side; /repo is not touched)"""
import subprocess, sys, os, json, re, time
patch, props = sys.argv[1], sys.argv[2].split(",")
tier = "quick"
seeds = ["1"]
if "--tier" in sys.argv:
    tier = sys.argv[sys.argv.index("--tier") + 1]
if "--seeds" in sys.argv:
    seeds = sys.argv[sys.argv.index("--seeds") + 1].split(",")
def sh(cmd, **kw):
    return subprocess.run(cmd, shell=True, capture_output=True, text=True, **kw)
copy = "--copy" in sys.argv
repo = "/repo"
if copy:
    import tempfile
    repo = tempfile.mkdtemp(prefix="seedrepo.", dir="/tmp")
    r = sh("git -C /repo archive HEAD | tar -x -C " + repo)
    assert r.returncode == 0, r.stderr
    r = sh("git apply " + os.path.abspath(patch), cwd=repo)
else:
    assert sh("git -C /repo status --porcelain").stdout.strip() == "", "/repo not clean"
    r = sh("git -C /repo apply " + patch)
if r.returncode != 0:
    print("PATCH DOES NOT APPLY:", r.stderr[:500])
    if copy:
        sh("rm -rf " + repo)
    sys.exit(3)
out = {"patch": patch, "results": {}}
try:
    b = sh("/verif/tools/baseline_check.py " + (repo if copy else ""))
    out["baseline_ok"] = b.returncode == 0
    print("baseline:", b.stdout.strip().splitlines()[0] if b.stdout else b.stderr[:300])
    for p in props:
        for s in seeds:
            t0 = time.time()
            c = sh("cd /verif && VERIF_SEED=%s %s ./vcheck %s --tier %s" % (s, ("VERIF_REPO=" + repo) if copy else "", p, tier))
            viol = re.findall(r"^VIOLATION .*$", c.stdout, re.M)
            rules = re.findall(r"^  rule=([^:]+(?::[^ ]+)?)", c.stdout, re.M)
            infra = re.findall(r"^INFRA-ERROR.*$", c.stdout, re.M)
            out["results"]["%s@%s" % (p, s)] = {"rc": c.returncode, "violations": len(viol), "rules": rules, "infra": infra[:1], "wall": round(time.time() - t0, 1)}
            print("%s seed=%s rc=%d violations=%d rules=%s %s (%.0fs)" % (p, s, c.returncode, len(viol), rules[:4], infra[:1], time.time() - t0))
            if c.returncode == 1:
                break
finally:
    if copy:
        sh("rm -rf " + repo)
    else:
        sh("git -C /repo checkout -- . && git -C /repo clean -fdq")
print(json.dumps(out))
