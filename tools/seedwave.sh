#!/bin/bash
# usage: wave4.sh <PROP> [props]  (copy mode: /repo untouched)
P=$1; X=${2:-$1}
mkdir -p /tmp/seedres
for W in A B; do
  echo "=== $P $W verify"; python3 /verif/tools/seedverify.py /tmp/wt/$P $W 2>&1 | tail -1 | cut -c1-300
  echo "=== $P $W eval"; python3 /verif/tools/seedeval.py /tmp/wt/$P/_seeded/$W/patch.diff $X --copy > /tmp/seedres/$P-${TAG:-4}$W.txt 2>&1; tail -1 /tmp/seedres/$P-${TAG:-4}$W.txt | cut -c1-500
done
