#!/bin/bash
# dev helper: sync /repo + harness into /tmp/vdev and build the worker binary
export GOFLAGS=-mod=mod GOPROXY=off GOSUMDB=off GOTOOLCHAIN=local
S=/tmp/vdev
mkdir -p $S
rsync -a --delete --exclude .git --exclude sim.test --exclude sim.race.test ${VERIF_REPO:-/repo}/ $S/ >/dev/null
rsync -a --delete /verif/verifsim $S/
cd $S && go1.26.8 run ./verifsim/cmd/rewriteimports store/fscache >/dev/null || exit 2
go1.26.8 run ./verifsim/cmd/instrumentgo . >/dev/null || exit 2
grep -q porcupine go.mod || printf '\nrequire github.com/anishathalye/porcupine v1.3.0\n' >> go.mod
go1.26.8 vet ./verifsim/... || exit 2
go1.26.8 test -c -o sim.test ./verifsim/engine || exit 2
