# Per-property configuration of the checks (profiles, budgets, evidence text).

COMPONENTS = {
    "real": [
        "httpcache transport, options and internal/* wired through httpcache.NewTransport",
        "store registry, store/memcache, store/expapi handlers (through net/http.ServeMux + httptest recorder)",
        "store/fscache incl. AES-GCM encryption (compiled from a scratch copy whose only change is the two import lines os / path/filepath)",
        "net/http response parser (http.ReadResponse) on simulated wire bytes",
        "log/slog text and JSON handlers",
    ],
    "virtual": ["clock, timers, context deadlines (testing/synctest bubble)", "goroutine scheduling (park/release at seam operations, seeded choice tape)"],
    "stub": ["origin server and network (scripted resources, wire-level chunking / latency / faults; HTTP/2-shaped responses built by hand)", "disk under fscache (in-memory POSIX-like simos with fault hooks, process-kill semantics)"],
}

GEN = ("Scenarios (backend, logger, timeouts, origin resource scripts, client operation lists, fault plan, schedule strategy) are drawn from a PRNG "
       "seeded with mix(VERIF_SEED, run index); run-time decisions (which parked goroutine runs next, stalls) come from the choice tape. ")


def P(profiles, stream, level="exploration", runs=(16000, 600000), rule="", budget=(30, 600), **kw):
    d = {"profiles": profiles, "stream": stream, "level": level, "runs": {"quick": runs[0], "thorough": runs[1]},
         "budget": {"quick": budget[0], "thorough": budget[1]}, "rule": GEN + rule}
    d.update(kw)
    return d


PROPS = {
    "C01": P(["fresh", "fresh", "valid", "swr", "hits"], 101,
             rule="Workload concentrates on max-age / Expires / heuristic lifetimes, Age and skewed Date values, response delay, request max-stale/min-fresh/max-age and think times at lifetime and stale-while-revalidate boundaries.",
             require_probes=["served-fresh-", "C01/served-stale"], technique="deterministic simulation: virtual clock + seeded histories, RFC 9111 reference age/lifetime interval oracle"),
    "C02": P(["valid", "valid", "oic", "sie", "fresh"], 102,
             rule="Workload mixes stored no-cache / no-cache=\"fields\" / must-revalidate / immutable / SWR / SIE with request no-cache / max-age / max-stale / min-fresh / only-if-cached, validators present or not, and origin answers 304 / 200 / 5xx / transport error to the validation.",
             require_probes=["C02/unvalidated-reuse", "C02/validation-request-wrong"], technique="deterministic simulation: seeded histories against a scripted origin, permission oracle over the recorded upstream-call log"),
    "C04": P(["vary", "vary", "conc", "swrreuse"], 104,
             rule="Few URIs, many requests per URI, origin Vary scripts that change over time (none, one or several fields, order changes, '*'), selecting header values built from meaning tables incl. name-like concatenations; 1-2 concurrent clients. Profile swrreuse: stale-while-revalidate entries without validators behind a slow origin, polled by a client that re-sends one request value after changing its selecting fields in place. Selecting values include credentials of several tokens (Authorization) and a value that is not UTF-8.",
             require_probes=["C04/wrong-variant"], technique="deterministic simulation: seeded histories of variant-index evolution, equivalence-by-construction oracle"),
    "C05": P(["fidelity", "fidelity", "conc", "swrrace"], 105,
             rule="Origin responses in all framings (Content-Length, chunked with trailers, close-delimited, HTTP/1.0, HTTP/2-shaped), arbitrary body bytes 0..64KiB (1MiB thorough), multi-valued / hop-by-hop / Connection-nominated fields, wire chunking with delays, all three backends with short disk reads. Network faults (reset / premature end inside the body) in a tenth of the plans: a message cut short must not reach the caller as a complete one. Profile swrrace: overlapping background refreshes of one entry while the resource changes at the origin (the origin decides 304-or-not when the request arrives).",
             require_probes=["C05/stored-copy-differs", "C05/miss-body-differs"], technique="deterministic simulation: simulated wire + simulated disk, byte-exact provenance oracle"),
    "C06": P(["store", "store", "faults"], 106,
             rule="Statuses 100-599, no-store on either side, non-GET methods, Range, client conditionals, must-understand with unassigned codes, responses without explicit freshness, body streams failing at a wire byte; every value reaching Conn.Set is scanned for origin-response tokens.",
             require_probes=["C06/forbidden-store", "net."], technique="deterministic simulation with network fault injection; monitor on every write at the store seam"),
    "C07": P(["inval"], 107,
             rule="GETs in several spellings and variants interleaved with unsafe requests of registered, WebDAV and unknown method tokens, statuses 1xx-5xx, relative / absolute / same- / cross-origin Location and Content-Location; 1-2 clients. A third of the runs inject transient read errors of the store (err / operation timeout on Get) while requests are handled; unsafe exchanges whose Delete was refused are not judged; storing or freshening that overlaps the unsafe request is not judged.",
             require_probes=["C07/served-after-invalidation"], technique="deterministic simulation: seeded histories, happens-before oracle on store writes vs unsafe exchanges"),
    "C08": P(["writeback", "swrvary", "swr", "varyflip", "wbfault"], 108,
             rule="Short lifetimes relative to think times so that entries are validated repeatedly; 304s carrying header updates, full replies with changed validators, 2-4 variants per URI, stale-while-revalidate so refreshes run in the detached goroutine at scheduler-chosen instants.",
             require_probes=["C08/"], technique="deterministic simulation: virtual clock, scheduler-controlled background goroutine, quiet-window model of the latest origin response"),
    "C09": P(["hits"], 109,
             rule="Every RFC 3986 spelling transformation and every documented selecting-header spelling, explicit and heuristic freshness, heuristically cacheable statuses, all backends, graceful restart between storing and reuse.",
             require_probes=["C09/expected-hit-missed", "expected-hit-respelled"], technique="deterministic simulation: quiet-window liveness oracle (latest stored response must be served without origin contact)"),
    "C10": P(["placement"], 110, level="fault_enumeration", mode="enum", runs=(0, 0), budget=(35, 900),
             rule="For each sampled short base history: the fault-free baseline fixes the sites; then every single placement (store operation x {error, not-exist, truncation, bit flip, 15 corpus values, another key's value / set error, error-but-applied / delete error}; upstream call x {error, 5xx, 404, reset at header/body byte, premature EOF, hang}) and sampled pairs are executed; each base is also replayed under text / JSON / info loggers and the event-log digests compared. Store faults include the error a backend returns when its own operation timeout elapses; URIs include queries that are not well-formed percent-encoding; a real-clock watchdog reports a library goroutine that computes forever without reaching a seam (hang:cpu-spin), confirmed by two replays.",
             require_probes=["store.get.err", "store.get.corpus", "net.error-before-header", "C10/log-dependence"], technique="deterministic simulation with exhaustive single-fault placement around sampled histories (store and origin seams)"),
    "C11": P(["fresh", "valid", "swr", "sie", "oic"], 111,
             rule="Rides on the freshness / validation / SWR / SIE / only-if-cached workloads, plus upstream Age, skewed Date and response delay.",
             require_probes=["C11/status-mismatch", "C11/age-wrong"], technique="deterministic simulation: virtual clock; history-derived classification of every response vs its Age and cache-status fields"),
    "C13": P(["sie"], 113,
             rule="Stale entries with validators; stale-if-error on the stored response, the request, both, neither; staleness around the window boundary; failure kinds transport error, reset in header, statuses 4xx/5xx; must-revalidate / no-cache variants.",
             require_probes=["sie-window-inside", "sie-window-outside"], technique="deterministic simulation with origin fault injection at validation time; virtual clock around the window boundary"),
    "C14": P(["map", "map", "recover"], 114, runs=(20000, 600000),
             rule="One client, 6-70 operations (Set, Get, Delete, Keys(prefix), reopen, buffer mutation after Set / of the slice returned by Get, and the same through the expapi handlers) over adversarial key tables (lengths around 36/48/191/255 bytes, keys that are prefixes of other keys, bytes 0x00-0xFF, URL-shaped keys with '#', empty key), values 0..3000 bytes (1 MiB thorough), backends memory / file system / encrypted; refinement against a Go map after every step. Profile recover: 1-4 concurrent clients over such key tables - either each the only one to touch its key, fault-free (each key's operations are then one sequence, checked against the map), or sharing keys and usually killed or failed at a random disk call; the directory is then reopened and one client reads every key, lists, writes, deletes and lists again: the answers must be those of one map (listing = keys just read, nothing that was never a key, no error).",
             require_probes=["C14/get-differs", "C14/keys-differs", "C14/recovered", "C14/disjoint"], technique="deterministic simulation over a simulated disk: step-by-step refinement against a map model with reopen as an operation"),
    "C15": P(["atomic", "atomic", "crashy", "recover"], 115, level="fault_enumeration", mode="mixed", runs=(8000, 300000), budget=(25, 600),
             rule="(1) Cut-point sweep: value lengths {1,2,17,300,(4097)}, with and without a previous (shorter / longer) value, plain and encrypted: the write fails after every k in 0..len with ENOSPC / EIO or the process is killed after k bytes or at any operation boundary of the Set; restart; Get. (2) Interleavings: 2-4 clients x 2-6 operations on 1-2 keys, every disk call a yield point, writes split into chunks, random / sticky / PCT schedules, stalls, with and without the faults above. Oracles: torn-read (self-describing values) and porcupine register linearizability with nondeterministic outcome for failed or killed Sets.",
             require_probes=["disk.crash@write", "disk.enospc@write", "store.op-timeout", "C15/not-linearizable", "C15/served-torn"], technique="deterministic simulation: syscall-level interleaving + exhaustive write cut points / kill points; porcupine linearizability of recorded histories"),
    "C16": P(["conc"], 116, runs=(8000, 300000), budget=(20, 600), race=True,
             rule="2-4 clients on the same and different URIs and variants, GETs and unsafe methods, stale-while-revalidate entries so that background revalidations overlap the callers' use of returned responses, stall faults, callers poisoning the responses and requests they own. (a) sequential rules C01/C02/C04/C05 on every response, (b) snapshot of every returned header map at return vs end of run + poison tracking, (c) -race build with pairwise-parallel release of parked goroutines.",
             require_probes=["C16/returned-response-mutated", "C16/poison-leaked"], technique="deterministic simulation: seeded interleavings at seam granularity; ownership snapshots; Go race detector on pairwise-parallel steps"),
    "C17": P(["crypt", "tamper"], 117, level="fault_enumeration", mode="mixed", runs=(1500, 100000), budget=(25, 600),
             rule="(1) Sweep for entries <= 100 (484 thorough) bytes: every byte position x {xor 0x01, xor 0x80, xor random}, truncation to every length, extension by 1 and 16 bytes, emptying; wrong key on reopen; six ways of requesting encryption without a usable key; each for encryption enabled by option, DSN and environment. (2) concurrent Set/Get/Delete runs on the encrypted backend with a monitor on every simulated disk write (no 8-byte window of any plaintext value).",
             require_probes=["disk.at-rest-flip1", "disk.at-rest-trunc", "config.unusable-key", "C17/plaintext-on-disk", "C17/tamper-accepted", "disk.at-rest-corruption"], technique="deterministic simulation: at-rest corruption as a storage fault, exhaustive byte positions; plaintext monitor on every disk write"),
    "C18": P(["oic", "oic", "valid"], 118,
             rule="Requests with only-if-cached (alone and with max-stale / no-cache / max-age / min-fresh) against store states empty, fresh, stale, no-cache, must-revalidate, other variant only, corrupted entry (Conn-level mutation), SWR-eligible. Store faults include operation timeouts (context.DeadlineExceeded from Get).",
             require_probes=["C18/network-touched"], technique="deterministic simulation: upstream-call attribution by goroutine lineage (foreground and background)"),
    "C19": P(["growth"], 119, runs=(700, 30000), budget=(40, 900),
             rule="A finite alphabet of <=4 URIs x <=4 header combinations (optionally an unsafe method) repeated for 8N requests (N=40 quick, 100-250 thorough) against origins using Vary (incl. '*' and changing sets), validation, stale-while-revalidate and 1-60 s lifetimes; store footprint recorded at N, 2N, 4N, 8N; one third of the runs end with an unsafe request to every URI.",
             require_probes=["C19/keys-unbounded", "C19/invalidation-leak"], technique="deterministic simulation: long histories on a virtual clock, footprint trend oracle at N/2N/4N/8N"),
    "C20": P(["swr", "swr", "swrreuse", "swrflood"], 120,
             rule="SWR-eligible stale entries with and without validators; background origin latency 0..timeout-1ns, timeout, timeout+1ns, 10x timeout, never; outcomes 304 / 200 / 5xx / error / reset mid-body; WithSWRTimeout unset, 0, negative, 1ns, 1s, 5s, 60s; caller context cancelled before / after return.",
             require_probes=["swr-served", "swr-timeout-fired"], technique="deterministic simulation: virtual clock + quiescence detection; causal foreground-latency, exactly-once and goroutine-census oracles"),
}
