# Per-property configuration of the checks (profiles, budgets, evidence text).

COMPONENTS = {
    "real": [
        "httpcache transport, options and internal/* wired through httpcache.NewTransport",
        "store registry, store/memcache, store/expapi handlers",
        "store/fscache incl. AES-GCM encryption (compiled from a scratch copy whose only change is the two import lines os / path/filepath)",
        "net/http response parser (http.ReadResponse) on simulated wire bytes",
        "log/slog text and JSON handlers",
    ],
    "virtual": ["clock, timers, context deadlines (testing/synctest bubble)", "goroutine scheduling (park/release at seam operations, seeded)"],
    "stub": ["origin server and network (scripted resources, wire-level chunking / latency / faults)", "disk under fscache (in-memory POSIX-like simos with fault hooks)"],
}

def P(profiles, stream, level="exploration", runs=(3000, 200000), rule="", budget=(40, 600), **kw):
    d = {"profiles": profiles, "stream": stream, "level": level, "runs": {"quick": runs[0], "thorough": runs[1]},
         "budget": {"quick": budget[0], "thorough": budget[1]}, "rule": rule}
    d.update(kw)
    return d

GEN = "Scenarios (backend, logger, timeouts, origin resource scripts, client operation lists, fault plan, schedule strategy) are drawn from a PRNG seeded with mix(VERIF_SEED, run index); run-time decisions (which parked goroutine runs next, stalls) come from the choice tape. "

PROPS = {
    "C01": P(["fresh", "fresh", "valid", "swr", "hits"], 101, rule=GEN + "Workload concentrates on max-age / Expires / heuristic lifetimes, Age and skewed Date values, response delay, request max-stale/min-fresh/max-age and think times at lifetime and stale-while-revalidate boundaries.",
             require_probes=["served-fresh-", "C01/served-stale"]),
}
